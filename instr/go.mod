module instr

go 1.21
