// instr writes a copy of the rux package in which every statement of every
// function is preceded by a scheduler yield, verifYield("p.<file>"). The copy
// is what the "-pre" (statement-level preemption) simulator binary is built
// against; nothing else is changed, and with the hook unset verifYield returns
// at once. Files verif_*.go (the hooks themselves) and tests are copied as is.
//
//	instr <src dir> <dst dir>
package main

import (
	"bytes"
	"fmt"
	"go/ast"
	"go/format"
	"go/parser"
	"go/token"
	"io"
	"io/fs"
	"os"
	"path/filepath"
	"strings"
)

func main() {
	if len(os.Args) != 3 {
		fmt.Fprintln(os.Stderr, "usage: instr <src> <dst>")
		os.Exit(2)
	}
	src, dst := os.Args[1], os.Args[2]
	total := 0
	err := filepath.WalkDir(src, func(path string, d fs.DirEntry, err error) error {
		if err != nil {
			return err
		}
		rel, _ := filepath.Rel(src, path)
		if d.IsDir() {
			if d.Name() == ".git" || (rel != "." && strings.HasPrefix(d.Name(), "_")) {
				return filepath.SkipDir
			}
			return os.MkdirAll(filepath.Join(dst, rel), 0o755)
		}
		if !d.Type().IsRegular() {
			return nil
		}
		out := filepath.Join(dst, rel)
		name := d.Name()
		inRoot := filepath.Dir(rel) == "."
		if inRoot && strings.HasSuffix(name, "_test.go") {
			return nil // the copy is only ever built, never tested
		}
		if inRoot && strings.HasSuffix(name, ".go") && !strings.HasPrefix(name, "verif_") {
			n, err := instrument(path, out, "p."+strings.TrimSuffix(name, ".go"))
			total += n
			return err
		}
		return copyFile(path, out)
	})
	if err != nil {
		fmt.Fprintln(os.Stderr, "instr:", err)
		os.Exit(2)
	}
	fmt.Printf("instr: %d yield points inserted\n", total)
}

func copyFile(from, to string) error {
	in, err := os.Open(from)
	if err != nil {
		return err
	}
	defer in.Close()
	out, err := os.Create(to)
	if err != nil {
		return err
	}
	if _, err := io.Copy(out, in); err != nil {
		out.Close()
		return err
	}
	return out.Close()
}

func instrument(from, to, site string) (int, error) {
	fset := token.NewFileSet()
	f, err := parser.ParseFile(fset, from, nil, parser.ParseComments)
	if err != nil {
		return 0, err
	}
	// Comments are positioned by offset; inserted nodes would drag them into odd
	// places. Only build constraints and the package doc matter for a copy that is
	// compiled and thrown away, so every comment after the package clause goes.
	var keep []*ast.CommentGroup
	for _, cg := range f.Comments {
		if cg.End() < f.Package {
			keep = append(keep, cg)
		}
	}
	f.Comments = keep
	n := 0
	yield := func() ast.Stmt {
		n++
		return &ast.ExprStmt{X: &ast.CallExpr{
			Fun:  ast.NewIdent("verifYield"),
			Args: []ast.Expr{&ast.BasicLit{Kind: token.STRING, Value: fmt.Sprintf("%q", site)}},
		}}
	}
	weave := func(list []ast.Stmt) []ast.Stmt {
		if len(list) == 0 {
			return list
		}
		out := make([]ast.Stmt, 0, 2*len(list))
		for _, s := range list {
			out = append(out, yield(), s)
		}
		return out
	}
	for _, decl := range f.Decls {
		fd, ok := decl.(*ast.FuncDecl)
		if !ok || fd.Body == nil {
			continue // package-level initialisers run before any scheduler exists
		}
		clauses := map[*ast.BlockStmt]bool{} // bodies that hold case clauses, not statements
		ast.Inspect(fd.Body, func(node ast.Node) bool {
			switch x := node.(type) {
			case *ast.SwitchStmt:
				clauses[x.Body] = true
			case *ast.TypeSwitchStmt:
				clauses[x.Body] = true
			case *ast.SelectStmt:
				clauses[x.Body] = true
			case *ast.BlockStmt:
				if !clauses[x] {
					x.List = weave(x.List)
				}
			case *ast.CaseClause:
				x.Body = weave(x.Body)
			case *ast.CommClause:
				x.Body = weave(x.Body)
			}
			return true
		})
	}
	var buf bytes.Buffer
	if err := format.Node(&buf, fset, f); err != nil {
		return 0, err
	}
	return n, os.WriteFile(to, buf.Bytes(), 0o644)
}
