#!/usr/bin/env python3
# summarise a worker's JSON-lines output (development helper)
import sys,json,collections
cl=collections.Counter(); first={}
n=int(sys.argv[1]) if len(sys.argv)>1 else 1800
for l in sys.stdin:
    d=json.loads(l)
    if d['type']=='viol':
        k=d['viol']['class']+'/'+d['viol'].get('sig','')
        cl[k]+=1; first.setdefault(k, (d['run'],d['viol']['detail']))
    else:
        print({k:(v if not isinstance(v,list) else len(v)) for k,v in d.items() if k not in ('probes','samples')})
print(dict(cl))
for k,(r,v) in first.items(): print('== %s (run %d)'%(k,r)); print(v[:n])
