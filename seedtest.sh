#!/bin/bash
# Development tooling (not a registered command): apply a patch to /repo, run
# the given checks (quick tier), report what they found, and undo the patch.
# usage: ./seedtest.sh <patch.diff> [--suite] <property id>...
set -u
cd "$(dirname "$0")"
P="$(readlink -f "$1")"; shift
SUITE=0
if [ "${1:-}" = "--suite" ]; then SUITE=1; shift; fi
export GOFLAGS=-mod=mod GOPROXY=off GOSUMDB=off GOTOOLCHAIN=local
if ! git -C /repo diff --quiet; then echo "seedtest: /repo is not clean" >&2; exit 2; fi
git -C /repo apply "$P" 2>/dev/null || git -C /repo apply --3way "$P" 2>/dev/null || { git -C /repo reset -q --hard HEAD; echo "seedtest: patch does not apply" >&2; exit 2; }
git -C /repo reset -q 2>/dev/null
trap 'git -C /repo checkout -- . ; git -C /repo clean -fdq' EXIT
if [ $SUITE = 1 ]; then
  ( cd /repo && go test -vet=off -count=1 . ./pkg/handlers ./pkg/binding 2>&1 | tail -4 | sed 's/^/  suite: /' )
fi
mkdir -p out/seed
for id in "$@"; do
  log="out/seed/$(basename "$(dirname "$P")")-$(basename "$P" .diff)-$id.log"
  start=$(date +%s)
  cp -f "evidence/$id.json" "out/seed/.evidence-$id.keep" 2>/dev/null
  ./check "$id" ${TIER:-quick} > "$log" 2>&1
  code=$?
  # the evidence file now describes a run against a changed tree: put the one of the unchanged tree back
  [ -f "out/seed/.evidence-$id.keep" ] && mv -f "out/seed/.evidence-$id.keep" "evidence/$id.json"
  echo "  $id exit=$code $(( $(date +%s) - start ))s $(grep -o 'violation class=[a-z-]* sig="[^"]*"' "$log" | sort | uniq -c | tr '\n' ';') $(grep -c '^VIOLATION' "$log") VIOLATION lines"
done
