#!/bin/bash
# ./pretest.sh <patch>...   development tool: apply each patch to /repo, rebuild, run only the
# statement-level preemption profiles (quick budgets; PROFILES="C08 concurrent-pre,C08 concurrent-race" selects others), revert. Evidence goes to a scratch directory.
set -u
cd "$(dirname "$0")"
export GOFLAGS=-mod=mod GOPROXY=off GOSUMDB=off GOTOOLCHAIN=local
S="$(mktemp -d /tmp/pretest.XXXXXX)"; mkdir -p "$S/out/replays" "$S/out/race" "$S/evidence"; cp known_findings.json "$S/"
for P in "$@"; do
  echo "== $P"
  git -C /repo apply "$PWD/$P" 2>/dev/null || git -C /repo apply --3way "$PWD/$P" 2>/dev/null || { echo "  apply failed"; git -C /repo reset -q --hard; continue; }
  if ./check --build >/dev/null 2>&1; then
    IFS=, read -ra PRS <<< "${PROFILES:-C03 concurrent-pre,C07 concurrent-pre,C08 concurrent-pre,C10 concurrent-pre,C14 lru-concurrent-pre,C14 router-concurrent-pre}"
    for pr in "${PRS[@]}"; do
      set -- $pr
      RUXSIM_VERIF_DIR="$S" RUXSIM_BIN_DIR="$PWD/out/bin" out/bin/ruxsim check -prop $1 -profile $2 -tier quick > "$S/log" 2>&1
      echo "  $1/$2 exit=$? $(grep -c '^VIOLATION' "$S/log") VIOLATION lines $(grep -m1 '^violation' "$S/log")"
    done
  else
    echo "  build failed"
  fi
  git -C /repo reset -q --hard; git -C /repo checkout -- . 
done
rm -rf "$S"
