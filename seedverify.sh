#!/bin/bash
# Development tooling: confirm a seeded change in its scratch worktree:
# suite passes with the patch, demo fails with it and passes without it.
# usage: seedverify.sh <worktree> <k>
set -u
WT="$1"; K="$2"
export GOFLAGS=-mod=mod GOPROXY=off GOSUMDB=off GOTOOLCHAIN=local
cd "$WT" || exit 2
git diff --quiet || { echo "worktree not clean"; exit 2; }
cp _seed/demo${K}_test.go ./zz_seed_demo${K}_test.go
names=$(grep -o 'func Test[A-Za-z0-9_]*' _seed/demo${K}_test.go | sed 's/func //' | paste -sd'|')
clean=$(go test -tags verif -vet=off -count=1 -run "^($names)\$" . 2>&1 | tail -1)
git apply _seed/patch${K}.diff || { echo "patch does not apply"; rm -f zz_seed_demo${K}_test.go; exit 2; }
patched=$(go test -tags verif -vet=off -count=1 -run "^($names)\$" . 2>&1 | tail -1)
rm -f zz_seed_demo${K}_test.go
suite=$(go test -vet=off -count=1 . ./pkg/handlers ./pkg/binding 2>&1 | grep -c '^ok')
vet=$(go build ./... 2>&1 | head -1)
git checkout -- . ; git clean -fdq -e _seed
echo "demo clean: [$clean] | demo patched: [$patched] | suite ok pkgs: $suite/3 $vet"
