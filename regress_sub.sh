#!/bin/bash
# Development tooling: corpus regression restricted to the properties whose checks have
# statement-level preemption profiles, plus two seeds of every other property.
# ./regress_sub.sh [file with seed ids to skip]
cd "$(dirname "$0")"
skip=" $(cat "${1:-/dev/null}" 2>/dev/null) "
for d in seeded/C03-*/ seeded/C07-*/ seeded/C10-*/ seeded/C14-*/ seeded/C04-a1/ seeded/C04-i-I22/ seeded/C05-a1/ seeded/C05-d2/ seeded/C08-a1/ seeded/C08-i-I31/ seeded/C09-a1/ seeded/C09-i-I21/ seeded/C16-a1/ seeded/C16-i-I32/; do
  id=$(basename "$d"); t=${id%%-*}
  [ -f "$d/patch.diff" ] || continue
  case "$skip" in *" $id "*) continue;; esac
  echo "== $id"
  ./seedtest.sh "$d/patch.diff" $t
done
