package main

import (
	"bytes"
	"flag"
	"fmt"
	"os/exec"
	"sort"
	"strings"
	"sync"
)

// digest: execute runs [from,to) of a profile and print one line per run with a
// hash of the complete event log (scenario, executed schedule, every request's
// record, violations). Used by the determinism self-test.
func cmdDigest(args []string) int {
	fs := flag.NewFlagSet("digest", flag.ExitOnError)
	prop := fs.String("prop", "", "")
	prof := fs.String("profile", "", "")
	seed := fs.Uint64("seed", envSeed(), "")
	from := fs.Int("from", 0, "")
	to := fs.Int("to", 0, "")
	fs.Parse(args)
	p := findProfile(*prop, *prof)
	if p == nil {
		return 2
	}
	for run := *from; run < *to; run++ {
		sc := makeScenario(p, *seed, run)
		out := execScenario(sc, true)
		var b strings.Builder
		b.Write(sc.JSON())
		b.WriteString(out.Schedule)
		for _, l := range out.Log {
			b.WriteString(l)
			b.WriteByte('\n')
		}
		for _, v := range out.Viol {
			b.WriteString(v.Class + "|" + v.Sig + "|" + v.Detail)
		}
		fmt.Printf("%s/%s run %d steps %d viol %d digest %016x\n", p.Prop, p.Name, run, out.Steps, len(out.Viol), hashStr(b.String()))
	}
	return 0
}

// selftest: determinism of every profile across processes and GOMAXPROCS
// settings, and visibility of races across baton hand-offs.
func cmdSelftest(args []string) int {
	fs := flag.NewFlagSet("selftest", flag.ExitOnError)
	n := fs.Int("n", 24, "runs per profile")
	procs := fs.Int("procs", 30, "processes per profile")
	only := fs.String("prop", "", "")
	fs.Parse(args)
	gmp := []string{"1", "4", "16"}
	type job struct {
		p    *Profile
		proc int
	}
	results := map[string][]string{}
	var mu sync.Mutex
	var wg sync.WaitGroup
	sem := make(chan struct{}, 16)
	failed := false
	for _, p := range profiles {
		if *only != "" && p.Prop != *only {
			continue
		}
		if p.Prop == "SELF" {
			continue
		}
		np := *procs
		runs := *n
		if p.Race {
			np, runs = 9, 6
		}
		for k := 0; k < np; k++ {
			wg.Add(1)
			go func(p *Profile, k, runs int) {
				defer wg.Done()
				sem <- struct{}{}
				defer func() { <-sem }()
				cmd := exec.Command(binPath(p.Race, p.Pre), "digest", "-prop", p.Prop, "-profile", p.Name, "-from", "0", "-to", fmt.Sprint(runs))
				env := childEnv(p.Race)
				env = append(env, "RUXSIM_KEEP_GOMAXPROCS=1", "GOMAXPROCS="+gmp[k%3])
				cmd.Env = env
				var stderr bytes.Buffer
				cmd.Stderr = &stderr
				out, err := cmd.Output()
				mu.Lock()
				defer mu.Unlock()
				if err != nil {
					fmt.Printf("selftest: %s/%s process %d failed: %v %s\n", p.Prop, p.Name, k, err, stderr.String())
					failed = true
					return
				}
				key := p.Prop + "/" + p.Name
				results[key] = append(results[key], string(out))
			}(p, k, runs)
		}
	}
	wg.Wait()
	keys := make([]string, 0, len(results))
	for k := range results {
		keys = append(keys, k)
	}
	sort.Strings(keys)
	for _, k := range keys {
		outs := results[k]
		same := true
		for _, o := range outs[1:] {
			if o != outs[0] {
				same = false
				a, b := strings.Split(outs[0], "\n"), strings.Split(o, "\n")
				for i := range a {
					if i < len(b) && a[i] != b[i] {
						fmt.Printf("selftest: NONDETERMINISM in %s:\n  %s\n  %s\n", k, a[i], b[i])
						break
					}
				}
				break
			}
		}
		if same {
			fmt.Printf("selftest: %-28s deterministic over %d processes x %d runs (GOMAXPROCS 1/4/16)\n", k, len(outs), strings.Count(outs[0], "\n"))
		} else {
			failed = true
		}
	}
	// race visibility: an unsynchronised harness variable touched by two tasks must be reported, a mutex-protected one must not
	if *only == "" || *only == "SELF" {
		for _, c := range []struct {
			prof string
			want bool
		}{{"racy", true}, {"syncd", false}} {
			p := findProfile("SELF", c.prof)
			hits := 0
			for i := 0; i < 5; i++ {
				sc := makeScenario(p, 1, i)
				vs, err := execInChild(sc)
				if err != nil {
					fmt.Println("selftest:", err)
					failed = true
					continue
				}
				for _, v := range vs {
					if v.Class == "data-race" {
						hits++
					}
				}
			}
			ok := (c.want && hits == 5) || (!c.want && hits == 0)
			fmt.Printf("selftest: race control %-6s reported in %d/5 executions (expected %v): ok=%v\n", c.prof, hits, c.want, ok)
			if !ok {
				failed = true
			}
		}
	}
	if failed {
		fmt.Println("selftest: FAILED")
		return 2
	}
	fmt.Println("selftest: ok")
	return 0
}

// ---- race-visibility controls ----

var selfRacyVar int
var selfSyncVar int
var selfMu sync.Mutex

func genSelf(kind string) func(rng *Rng, sc *Scenario) {
	return func(rng *Rng, sc *Scenario) {
		sc.Handlers = map[string][]Action{"h0": {{Op: kind}, {Op: "write", S: "x"}}}
		sc.Program = []RegOp{{Op: "route", Via: "verb", Methods: []string{"GET"}, Path: "/a", H: "h0"}}
		sc.Clients = []Client{{Reqs: []Req{{Method: "GET", Path: "/a"}}}, {Reqs: []Req{{Method: "GET", Path: "/a"}}}}
		sc.Pool = PoolCfg{Policy: "fresh"}
		sc.Sites = []string{"h.enter"}
		sc.Schedule = []int{0, 1, 0, 1}
	}
}

func checkSelf(sc *Scenario) *CheckOut {
	res := RunConcurrent(sc)
	return &CheckOut{Res: res}
}

func init() {
	register(&Profile{Prop: "SELF", Name: "racy", Race: true, Gen: genSelf("selfracy"), Check: checkSelf})
	register(&Profile{Prop: "SELF", Name: "syncd", Race: true, Gen: genSelf("selfsync"), Check: checkSelf})
}
