package main

import (
	"context"
	"errors"
	"fmt"
	"io"
	"net"
	"net/http"
	"net/url"
	"os"
	"sort"
	"strconv"
	"strings"
	"sync/atomic"
	"syscall"
	"time"

	"github.com/gookit/rux"
)

// TItem is one entry of a request's handler trace.
type TItem struct {
	K string `json:"k"` // enter leave unwind obs w rec ctxchg
	H string `json:"h,omitempty"`
	V string `json:"v,omitempty"`
}

func (t TItem) String() string {
	if t.V == "" {
		return t.K + ":" + t.H
	}
	return t.K + ":" + t.H + "(" + t.V + ")"
}

// ReqRec is everything recorded about one simulated request.
type ReqRec struct {
	Task      int      `json:"task"`
	Idx       int      `json:"idx"`
	Method    string   `json:"m"`
	Path      string   `json:"p"`
	Trace     []TItem  `json:"trace"`
	Calls     []WCall  `json:"calls"`
	Snap      []string `json:"hdr,omitempty"`
	Body      string   `json:"body"`
	Code      int      `json:"code"`
	Committed bool     `json:"committed"`
	Escaped   string   `json:"escaped,omitempty"`
	Returned  bool     `json:"returned"`

	CtxID    int      `json:"-"`
	Reused   bool     `json:"-"`
	Fired    []string `json:"-"`
	StartSeq int64    `json:"-"`
	EndSeq   int64    `json:"-"`
	// abort bookkeeping (positions in Trace)
	AbortAt  []int `json:"-"`
	PanicAt  []int `json:"-"`
	PanicSeq int64 `json:"-"`
	Done     bool  `json:"-"` // ServeHTTP has returned (or panicked)
	Hijacked bool  `json:"-"` // a handler took over the connection
	PanicVal any   `json:"-"` // value of a panic caused by an injected writer fault
	// route cache bookkeeping
	CacheKeys string `json:"-"` // keys from most to least recent when the request finished
	Hits      int64  `json:"-"` // cache hits during the request
	Stores    int64  `json:"-"` // cache stores during the request
}

// Canon is the comparable part of a record as one string.
func (r *ReqRec) Canon() string {
	var b strings.Builder
	for _, t := range r.Trace {
		b.WriteString(t.String())
		b.WriteByte(' ')
	}
	b.WriteString("| ")
	for _, c := range r.Calls {
		fmt.Fprintf(&b, "%s(%d,%d,%d,%s,%t,%t) ", c.Op, c.Code, c.Len, c.N, c.Err, c.Implicit, c.Superfluous)
	}
	fmt.Fprintf(&b, "| hdr=%s | body=%q | code=%d | esc=%s | ret=%t", strings.Join(r.Snap, ";"), r.Body, r.Code, r.Escaped, r.Returned)
	return b.String()
}

type reqState struct {
	rec     *ReqRec
	req     *Req
	orig    *http.Request
	sw      *SimWriter
	ctx     *rux.Context
	started map[string]int
	cancel  context.CancelFunc
	under   http.ResponseWriter // what ServeHTTP was given (the SimWriter, or a plain view of it)
}

type routeRec struct {
	op    *RegOp
	route *rux.Route
	gmw   []string // model: group middleware in effect when registered (outermost first)
	full  string   // Route.Path() after registration
}

// World is one router built from a scenario's registration program, with the harness handlers.
type World struct {
	sc     *Scenario
	R      *rux.Router
	routes []*routeRec
	hfn    map[string]rux.HandlerFunc

	cur      [maxTasks]*reqState   // request being served by each task
	solo     *reqState             // request being served outside the scheduler
	identify [maxTasks + 1]*string // per task (index 0: outside the scheduler): a task may be preempted inside Identify
	wrapped  http.Handler          // the router behind Router.WrapHTTPHandlers(pass-through pre-handlers), when the scenario asks for it
	mwBase   []rux.HandlerFunc
	inner    *rux.Router // a second router mounted below the main one ("mount" action)

	copies     [16]*rux.Context
	copyOrigin [16]*ReqRec
	copyCell   [16]uint32
	ncopies    int

	// registration model state (C04)
	globals  []string
	frames   [][]string
	notFound []string
	notAllow []string
	regPanic string
}

type ctxKey struct{}

type simController struct{ add func() }

func (c simController) AddRoutes(_ *rux.Router) { c.add() }

//go:norace
func (w *World) curState() *reqState {
	t := shCur()
	if t < 0 {
		return w.solo
	}
	return w.cur[t]
}

//go:norace
func (w *World) setCur(t int, rs *reqState) {
	if t < 0 {
		w.solo = rs
		return
	}
	w.cur[t] = rs
}

//go:norace
func (w *World) storeCopy(c *rux.Context, origin *ReqRec) int {
	if w.ncopies < len(w.copies) {
		w.copies[w.ncopies], w.copyOrigin[w.ncopies] = c, origin
		w.ncopies++
		return w.ncopies - 1
	}
	return -1
}

// finishedCopy returns the most recent stored copy whose origin request has returned.
//
//go:norace
func (w *World) finishedCopy(self *ReqRec) (*rux.Context, int) {
	for i := w.ncopies - 1; i >= 0; i-- {
		if o := w.copyOrigin[i]; o != self && o.Done {
			return w.copies[i], i
		}
	}
	return nil, -1
}

//go:norace
func markDone(r *ReqRec) { r.Done = true }

//go:norace
func (w *World) setIdentify(p *string) { w.identify[shCur()+1] = p }

//go:norace
func (w *World) getIdentify() *string { return w.identify[shCur()+1] }

type BuildOpt struct {
	NoCache bool
}

func BuildWorld(sc *Scenario, bo BuildOpt) (w *World) {
	w = &World{sc: sc, hfn: map[string]rux.HandlerFunc{}}
	var opts []func(*rux.Router)
	o := sc.Options
	if o.Caching && !bo.NoCache {
		switch o.CacheOpt {
		case "enable-max":
			opts = append(opts, rux.EnableCaching, rux.MaxNumCaches(uint16(o.Capacity)))
		case "max-enable":
			opts = append(opts, rux.MaxNumCaches(uint16(o.Capacity)), rux.EnableCaching)
		default:
			opts = append(opts, rux.CachingWithNum(uint16(o.Capacity)))
		}
	}
	if o.StrictSlash {
		opts = append(opts, rux.StrictLastSlash)
	}
	if o.NotAllowed {
		opts = append(opts, rux.HandleMethodNotAllowed)
	}
	if o.Fallback {
		opts = append(opts, rux.HandleFallbackRoute)
	}
	if o.EncodedPath {
		opts = append(opts, rux.UseEncodedPath)
	}
	if o.Intercept != "" {
		opts = append(opts, rux.InterceptAll(o.Intercept))
	}
	w.R = rux.New(opts...)
	if o.OnPanic != "" {
		w.R.OnPanic = w.h(o.OnPanic)
	}
	if o.OnError != "" {
		w.R.OnError = w.h(o.OnError)
	}
	defer func() {
		if r := recover(); r != nil {
			w.regPanic = fmt.Sprint(r)
		}
	}()
	w.register(sc.Program, nil)
	if sc.Options.Wrapped {
		pass := func(h http.Handler) http.Handler {
			return http.HandlerFunc(func(rw http.ResponseWriter, r *http.Request) { h.ServeHTTP(rw, r) })
		}
		w.wrapped = w.R.WrapHTTPHandlers(pass, pass)
	}
	if sc.Inner {
		// the mounted router: two routes served by harness handlers of this world
		w.inner = rux.New()
		w.inner.GET("/in/a", w.h("i0"), w.h("j0"))
		w.inner.Add("/in/b", w.h("i1"), "GET", "POST", "HEAD")
	}
	return w
}

func (w *World) hs(ids []string) []rux.HandlerFunc {
	if len(ids) > 0 && len(ids) == len(w.sc.SharedMW) {
		same := true
		for i := range ids {
			same = same && ids[i] == w.sc.SharedMW[i]
		}
		if same {
			// the application's own slice, built once with spare capacity and never modified by it afterwards:
			// every registration that names exactly this list receives the same slice value
			if w.mwBase == nil {
				w.mwBase = make([]rux.HandlerFunc, 0, len(ids)+8)
				for _, id := range ids {
					w.mwBase = append(w.mwBase, w.h(id))
				}
			}
			return w.mwBase
		}
	}
	out := make([]rux.HandlerFunc, len(ids))
	for i, id := range ids {
		out[i] = w.h(id)
	}
	return out
}

func (w *World) register(ops []RegOp, frame []string) {
	r := w.R
	inGroup := len(w.frames) > 0
	for i := range ops {
		op := &ops[i]
		switch op.Op {
		case "use":
			r.Use(w.hs(op.MW)...)
			if inGroup {
				top := len(w.frames) - 1
				w.frames[top] = append(append([]string{}, w.frames[top]...), op.MW...)
			} else {
				w.globals = append(w.globals, op.MW...)
			}
		case "group":
			var cur []string
			if inGroup {
				cur = w.frames[len(w.frames)-1]
			}
			w.frames = append(w.frames, append(append([]string{}, cur...), op.MW...))
			if op.Via == "controller" { // Router.Controller = a group whose body is the controller's AddRoutes
				r.Controller(op.Path, simController{func() { w.register(op.Body, nil) }}, w.hs(op.MW)...)
			} else {
				r.Group(op.Path, func() { w.register(op.Body, nil) }, w.hs(op.MW)...)
			}
			w.frames = w.frames[:len(w.frames)-1]
		case "route":
			var rt *rux.Route
			h := w.h(op.H)
			mw := w.hs(op.MW)
			switch op.Via {
			case "verb":
				m := "GET"
				if len(op.Methods) > 0 {
					m = op.Methods[0]
				}
				switch m {
				case "GET":
					rt = r.GET(op.Path, h, mw...)
				case "POST":
					rt = r.POST(op.Path, h, mw...)
				case "PUT":
					rt = r.PUT(op.Path, h, mw...)
				case "PATCH":
					rt = r.PATCH(op.Path, h, mw...)
				case "DELETE":
					rt = r.DELETE(op.Path, h, mw...)
				case "HEAD":
					rt = r.HEAD(op.Path, h, mw...)
				case "OPTIONS":
					rt = r.OPTIONS(op.Path, h, mw...)
				case "CONNECT":
					rt = r.CONNECT(op.Path, h, mw...)
				case "TRACE":
					rt = r.TRACE(op.Path, h, mw...)
				default:
					rt = r.Add(op.Path, h, m).Use(mw...)
				}
			case "named":
				rt = r.AddNamed(op.Name, op.Path, h, op.Methods...).Use(mw...)
			case "any":
				r.Any(op.Path, h, mw...)
			case "attach": // NewRoute(...).Use(...).AttachTo(router)
				rt = rux.NewRoute(op.Path, h, op.Methods...)
				rt.Use(mw...)
				rt.AttachTo(r)
			default:
				rt = r.Add(op.Path, h, op.Methods...).Use(mw...)
			}
			if rt != nil && len(op.LaterUse) > 0 {
				rt.Use(w.hs(op.LaterUse)...)
			}
			rec := &routeRec{op: op, route: rt}
			if inGroup {
				rec.gmw = append([]string{}, w.frames[len(w.frames)-1]...)
			}
			if rt != nil {
				rec.full = rt.Path()
			}
			w.routes = append(w.routes, rec)
		case "notfound":
			r.NotFound(w.hs(op.MW)...)
			w.notFound = op.MW
		case "notallowed":
			r.NotAllowed(w.hs(op.MW)...)
			w.notAllow = op.MW
		case "resource":
			w.registerResource(op)
		}
	}
}

// h returns the harness handler with the given id (one closure per id and world).
func (w *World) h(id string) rux.HandlerFunc {
	if f, ok := w.hfn[id]; ok {
		return f
	}
	f := rux.HandlerFunc(func(c *rux.Context) { w.play(id, c) })
	if id[0] == 'w' {
		// a plain net/http handler mounted with rux.WrapH: it sees only (ResponseWriter, *Request)
		f = rux.WrapH(http.HandlerFunc(func(rw http.ResponseWriter, r *http.Request) { w.playHTTP(id, rw) }))
	}
	w.hfn[id] = f
	return f
}

// playHTTP is the body of a harness handler mounted through rux.WrapH.
func (w *World) playHTTP(id string, rw http.ResponseWriter) {
	if p := w.getIdentify(); p != nil {
		*p = id
		return
	}
	rs := w.curState()
	if rs == nil {
		panic("ruxsim: wrapped handler " + id + " called outside a simulated request")
	}
	rec := rs.rec
	rec.Trace = append(rec.Trace, TItem{K: "enter", H: id})
	taskYield(siteHEnter)
	for _, a := range w.script(rs, id) {
		taskYield(siteHAct)
		switch a.Op {
		case "hwrite":
			rec.Trace = append(rec.Trace, TItem{K: "do", H: id, V: "write:" + a.S})
			n, err := rw.Write([]byte(a.S))
			rec.Trace = append(rec.Trace, TItem{K: "w", H: id, V: fmt.Sprintf("%d,%v,len=%d", n, err, rs.ctxLen())})
		case "hstatus":
			rec.Trace = append(rec.Trace, TItem{K: "do", H: id, V: "status:" + strconv.Itoa(a.N)})
			rw.WriteHeader(a.N)
		case "herror":
			rec.Trace = append(rec.Trace, TItem{K: "do", H: id, V: "httperr:" + strconv.Itoa(a.N) + ":" + a.S})
			http.Error(rw, a.S, a.N)
		case "hheader":
			rw.Header().Set(a.S, a.V)
		}
	}
	taskYield(siteHLeave)
	rec.Trace = append(rec.Trace, TItem{K: "leave", H: id})
}

func (rs *reqState) ctxLen() int {
	if rs.ctx != nil {
		return rs.ctx.Length()
	}
	return -2
}

// Identify returns the id of a harness handler function.
func (w *World) Identify(f rux.HandlerFunc) (id string) {
	if f == nil {
		return ""
	}
	w.setIdentify(&id)
	defer func() { w.setIdentify(nil); recover() }()
	f(nil)
	return
}

func (w *World) script(rs *reqState, id string) []Action {
	if rs != nil && rs.req != nil {
		if s, ok := rs.req.Over[id]; ok {
			return s
		}
	}
	if s, ok := w.sc.Handlers[id]; ok {
		return s
	}
	return defaultScript(id)
}

func defaultScript(id string) []Action {
	if id == "" {
		return nil
	}
	switch id[0] {
	case 'h', 'a': // main handlers, resource actions
		return []Action{{Op: "obs"}, {Op: "write", S: id + ";"}}
	case 'n': // fallback handlers
		return []Action{{Op: "obs"}, {Op: "write", S: id + ";"}}
	case 'p': // panic hook
		return []Action{{Op: "obsrec"}, {Op: "status", N: 500}}
	case 'e': // error hook
		return []Action{{Op: "obs"}}
	case 'w': // net/http handler mounted with WrapH
		return []Action{{Op: "hheader", S: "X-W", V: id}}
	}
	return []Action{{Op: "obs"}, {Op: "next"}, {Op: "obs"}}
}

// bufWriter is what a buffering middleware puts in c.Resp.
type bufWriter struct {
	hdr    http.Header
	status int
	body   []byte
}

func (b *bufWriter) Header() http.Header { return b.hdr }
func (b *bufWriter) WriteHeader(code int) {
	if code > 0 {
		b.status = code
	}
}
func (b *bufWriter) Write(p []byte) (int, error) { b.body = append(b.body, p...); return len(p), nil }

// plainWriter exposes only the three methods of http.ResponseWriter.
type plainWriter struct{ w *SimWriter }

func (p plainWriter) Header() http.Header         { return p.w.Header() }
func (p plainWriter) Write(b []byte) (int, error) { return p.w.Write(b) }
func (p plainWriter) WriteHeader(code int)        { p.w.WriteHeader(code) }

type passWriter struct{ http.ResponseWriter }

func (p passWriter) Flush() {
	if f, ok := p.ResponseWriter.(http.Flusher); ok {
		f.Flush()
	}
}

type swapKey struct{}

// play is the body of every harness handler.
func (w *World) play(id string, c *rux.Context) {
	if p := w.getIdentify(); p != nil {
		*p = id
		return
	}
	rs := w.curState()
	if rs == nil {
		panic("ruxsim: handler " + id + " called outside a simulated request")
	}
	rec := rs.rec
	if rs.ctx == nil {
		rs.ctx = c
		rec.CtxID = poolIDOf(c)
	} else if rs.ctx != c {
		rec.Trace = append(rec.Trace, TItem{K: "ctxchg", H: id})
	}
	n := rs.started[id]
	rs.started[id] = n + 1
	rec.Trace = append(rec.Trace, TItem{K: "enter", H: id})
	shNextSeq()
	taskYield(siteHEnter)
	finished := false
	defer func() {
		if !finished {
			rec.Trace = append(rec.Trace, TItem{K: "unwind", H: id})
		}
	}()
	for _, a := range w.script(rs, id) {
		taskYield(siteHAct)
		w.act(rs, id, c, a)
	}
	taskYield(siteHLeave)
	rec.Trace = append(rec.Trace, TItem{K: "leave", H: id})
	finished = true
}

func (w *World) act(rs *reqState, id string, c *rux.Context, a Action) {
	rec := rs.rec
	add := func(k, v string) { rec.Trace = append(rec.Trace, TItem{K: k, H: id, V: v}) }
	switch a.Op {
	case "obs":
		add("obs", w.observe(rs, c))
	case "write":
		add("do", "write:"+a.S)
		n, err := c.Resp.Write([]byte(a.S))
		add("w", fmt.Sprintf("%d,%v,len=%d", n, err, c.Length()))
	case "iowstr": // io.WriteString: uses a WriteString method of the writer when there is one
		add("do", "write:"+a.S)
		n, err := io.WriteString(c.Resp, a.S)
		add("w", fmt.Sprintf("%d,%v,len=%d", n, err, c.Length()))
	case "wstr":
		add("do", "wstr:"+a.S)
		// WriteString panics by contract when the writer fails: an injected writer fault
		// becomes a handler crash at exactly that point (recorded only if it really happens)
		func() {
			defer func() {
				if r := recover(); r != nil {
					rec.PanicAt = append(rec.PanicAt, len(rec.Trace))
					if rec.PanicSeq == 0 {
						rec.PanicSeq = shNextSeq()
					}
					rec.PanicVal = r
					add("panic", "werr")
					panic(r)
				}
			}()
			c.WriteString(a.S)
		}()
	case "status":
		add("do", "status:"+strconv.Itoa(a.N))
		c.SetStatus(a.N)
	case "rawstatus":
		add("do", "status:"+strconv.Itoa(a.N))
		c.Resp.WriteHeader(a.N)
	case "header":
		c.SetHeader(a.S, a.V)
	case "flush":
		if f, ok := c.Resp.(http.Flusher); ok {
			add("do", "flush")
			f.Flush()
		}
	case "rcflush": // the Go 1.20 way: http.NewResponseController(w).Flush(), which prefers a FlushError method
		add("do", "rcflush")
		http.NewResponseController(c.Resp).Flush()
	case "httperr":
		add("do", "httperr:"+strconv.Itoa(a.N)+":"+a.S)
		c.HTTPError(a.S, a.N)
	case "redirect":
		add("do", "redirect:"+strconv.Itoa(a.N)+":"+a.S)
		c.Redirect(a.S, a.N)
	case "text":
		add("do", "text:"+strconv.Itoa(a.N)+":"+a.S)
		c.Text(a.N, a.S)
	case "stream": // io.Copy from a reader without WriteTo, as Context.Stream does for files and pipes
		add("do", "stream:"+strconv.Itoa(a.N)+":"+a.S)
		c.Stream(a.N, "text/plain", io.LimitReader(strings.NewReader(a.S), int64(len(a.S))))
	case "nocontent":
		add("do", "status:204")
		c.NoContent()
	case "next":
		taskYield(siteHNext)
		c.Next()
		taskYield(siteHNext)
	case "abort":
		rec.AbortAt = append(rec.AbortAt, len(rec.Trace))
		add("abort", "")
		c.Abort()
	case "abortthen":
		rec.AbortAt = append(rec.AbortAt, len(rec.Trace))
		add("abort", "then")
		c.AbortThen()
	case "abortstatus":
		rec.AbortAt = append(rec.AbortAt, len(rec.Trace))
		add("abort", fmt.Sprintf("status %d %s", a.N, a.S))
		if a.S != "" {
			add("do", "httperr:"+strconv.Itoa(a.N)+":"+a.S)
		} else {
			add("do", "status:"+strconv.Itoa(a.N))
		}
		if a.S != "" {
			c.AbortWithStatus(a.N, a.S)
		} else {
			c.AbortWithStatus(a.N)
		}
	case "panic":
		rec.PanicAt = append(rec.PanicAt, len(rec.Trace))
		add("panic", a.S)
		if rec.PanicSeq == 0 {
			rec.PanicSeq = shNextSeq()
		}
		doPanic(a.S, id)
	case "panicif":
		if w.sc.Options.OnPanic != "" {
			rec.PanicAt = append(rec.PanicAt, len(rec.Trace))
			add("panic", "str")
			doPanic("str", id)
		}
	case "set":
		c.Set(a.S, a.V)
	case "adderr":
		c.AddError(errors.New(a.S))
	case "adderrn": // many errors in one request
		for i := 0; i < a.N; i++ {
			c.AddError(errors.New(a.S + strconv.Itoa(i)))
		}
	case "setparam":
		c.Params = rux.Params{a.S: a.V}
	case "swapwriter":
		c.Resp = passWriter{c.Resp}
	case "bufnext": // a middleware that buffers the response of the rest of the chain and writes it out afterwards
		old := c.Resp
		buf := &bufWriter{hdr: old.Header()}
		c.Resp = buf
		taskYield(siteHNext)
		c.Next()
		taskYield(siteHNext)
		c.Resp = old
		if buf.status == 0 {
			buf.status = 200
		}
		c.Resp.WriteHeader(buf.status)
		if len(buf.body) > 0 {
			c.Resp.Write(buf.body)
		}
	case "hijack":
		if hj, ok := c.Resp.(http.Hijacker); ok {
			conn, _, err := hj.Hijack()
			if conn != nil {
				conn.Close()
			}
			rec.Hijacked = err == nil
			add("hijack", fmt.Sprint(err == nil))
		}
	case "mount": // a second rux router mounted below this one (rux.WrapH(inner) as main handler)
		if w.inner != nil {
			add("mount", a.S)
			u := *c.Req.URL
			u.Path = a.S
			r2 := *c.Req
			r2.URL = &u
			w.inner.ServeHTTP(c.Resp, &r2)
		}
	case "nextrecover":
		func() {
			defer func() {
				if r := recover(); r != nil {
					add("recovered", panicString(r))
				}
			}()
			taskYield(siteHNext)
			c.Next()
			taskYield(siteHNext)
		}()
	case "wrapnext": // a middleware that wraps the writer for the rest of the chain and restores it afterwards (no defer)
		old := c.Resp
		c.Resp = passWriter{old}
		taskYield(siteHNext)
		c.Next()
		taskYield(siteHNext)
		c.Resp = old
	case "swapreq":
		c.Req = c.Req.WithContext(context.WithValue(c.Req.Context(), swapKey{}, id))
	case "yield":
		taskYield(-1)
	case "editquery": // a handler that works on the parsed query it was given
		q := c.QueryValues()
		q.Set("q", "edited-by-"+id)
		q.Set("page", "2")
		_ = q.Encode()
	case "buildurl": // build a link from a named route and decorate it, as a handler rendering a page does
		if rt := c.Router().GetRoute(a.S); rt != nil {
			u := c.Router().BuildURL(a.S)
			add("url", u.String())
			u.RawQuery = "next=" + url.QueryEscape(rec.Path)
		}
	case "helper": // the other response helpers: content is C19's business, the header commit is C08's
		add("helper", a.S)
		switch a.S {
		case "json":
			c.JSON(a.N, map[string]any{"id": id, "n": 1})
		case "jsonbytes":
			c.JSONBytes(a.N, []byte(`{"a":1}`))
		case "jsonp":
			c.JSONP(a.N, "cb", []int{1, 2})
		case "xml":
			c.XML(a.N, struct{ A int }{7})
		case "html":
			c.HTML(a.N, []byte("<b>"+id+"</b>"))
		case "htmlstring":
			c.HTMLString(a.N, "")
		case "blob":
			c.Blob(a.N, "application/x-sim", []byte(id))
		case "back":
			c.Back()
		case "cookie":
			c.SetCookie("k", id, 60, "", "", false, true)
			c.DelCookie("old")
		case "attachment":
			c.Attachment("/verif/ruxsim/go.mod", "go.mod")
		case "inline":
			c.Inline("/nonexistent/file", "x")
		case "statuscode":
			c.SetStatusCode(a.N)
		}
	case "binary": // Context.Binary -> http.ServeContent
		add("do", "binary:"+strconv.Itoa(a.N)+":"+a.S)
		c.Binary(a.N, strings.NewReader(a.S), "f.bin", true)
	case "cancelreq": // the client goes away (or a deadline fires) while the chain is running
		if rs.cancel != nil {
			rs.cancel()
		}
	case "introspect": // what a route-dump / admin handler does at request time
		r := c.Router()
		// The dump functions walk Go maps: with a yield before every statement the order of the
		// walk would reach the schedule. They only read; no preemption inside them.
		shQuiet(1)
		defer shQuiet(-1)
		n := len(r.String()) * 0
		n += len(r.Routes()) + len(r.NamedRoutes()) + len(r.Handlers())
		r.IterateRoutes(func(rt *rux.Route) {
			n += len(rt.Info().Methods) + len(rt.String())*0 + len(rt.MethodString(","))*0 + len(rt.Handlers())*0 + len(rt.Name())*0 + len(rt.HandlerName())*0
			n++
		})
		n += len(c.HandlerName()) * 0
		_ = r.GetRoute("route0")
		add("introspect", strconv.Itoa(n))
	case "copy": // keep a Copy() of the context beyond the request, as a handler does for a background goroutine
		if i := w.storeCopy(c.Copy(), rec); i >= 0 {
			atomic.StoreUint32(&w.copyCell[i], 1) // the happens-before edge of the go statement that hands the copy over
		}
	case "usecopy": // the background goroutine of an earlier, finished request writes to its copy
		if cp, i := w.finishedCopy(rec); cp != nil {
			atomic.LoadUint32(&w.copyCell[i])
			cp.Set(a.S, a.V)
			cp.AddError(errors.New("bg-" + a.V))
			atomic.StoreUint32(&w.copyCell[i], 2) // one owner at a time: the next user of this copy is ordered after this one
		}
	case "selfracy": // self-test control: an unsynchronised access shared by all tasks
		selfRacyVar++
	case "selfsync": // self-test control: the same under a real mutex
		selfMu.Lock()
		selfSyncVar++
		selfMu.Unlock()
	case "obsrec":
		v, ok := c.Get(rux.CTXRecoverResult)
		add("rec", fmt.Sprintf("%t:%T:%v", ok, v, v))
	case "redispatch":
		u := *c.Req.URL
		u.Path = a.S
		r2 := *c.Req
		r2.URL = &u
		c.Req = &r2
		add("do", "redispatch:"+a.S)
		c.Router().HandleContext(c)
		add("do", "endofdispatch") // the nested dispatch has committed the header by now
	default:
		panic("ruxsim: unknown action " + a.Op)
	}
}

// observe renders what a handler can see of its context.
func (w *World) observe(rs *reqState, c *rux.Context) string {
	var b strings.Builder
	b.WriteString("p=")
	b.WriteString(sortedKV(c.Params))
	b.WriteString(" d=")
	d := c.Data()
	keys := make([]string, 0, len(d))
	for k := range d {
		keys = append(keys, k)
	}
	sort.Strings(keys)
	for i, k := range keys {
		if i > 0 {
			b.WriteByte(',')
		}
		v := d[k]
		if ss, ok := v.([]string); ok {
			cp := append([]string{}, ss...)
			sort.Strings(cp)
			v = cp
		}
		if strings.HasPrefix(k, "_") && k != rux.CTXRecoverResult && k != rux.CTXAllowedMethods && k != rux.CTXCurrentRouteName && k != rux.CTXCurrentRoutePath {
			// an internal key no property speaks about (a debug stack, a timestamp, ...): its presence is observed, its value is not
			b.WriteString(k)
			continue
		}
		fmt.Fprintf(&b, "%s=%v", k, v)
	}
	b.WriteString(" e=[")
	for i, e := range c.Errors {
		if i > 0 {
			b.WriteByte(',')
		}
		b.WriteString(e.Error())
	}
	fmt.Fprintf(&b, "] ab=%t st=%d len=%d", c.IsAborted(), c.StatusCode(), c.Length())
	reqOK := c.Req == rs.orig
	if !reqOK && c.Req != nil {
		// a request derived from ours by WithContext still carries our key
		if v, _ := c.Req.Context().Value(ctxKey{}).(*reqState); v == rs {
			reqOK = true
			b.WriteString(" req=derived")
		}
	}
	if !reqOK {
		b.WriteString(" req=FOREIGN")
	}
	if raw := c.RawWriter(); raw != rs.under {
		b.WriteString(" raw=FOREIGN")
	}
	fmt.Fprintf(&b, " resp=%T", c.Resp)
	if c.Req != nil {
		// what the request-derived getters say (a value kept from another request would show here)
		fmt.Fprintf(&b, " acc=%v q=%s ct=%s ip=%s ck=%s post=%s", c.AcceptedTypes(), c.Query("q"), c.ContentType(), c.ClientIP(), c.Cookie("sid"), c.Post("user"))
		qp, qok := c.QueryParam("q")
		dl, dok := c.Deadline()
		fmt.Fprintf(&b, " more=%v|%s|%v%t|%d|%t%t%t%t%t|%v|%v|%v|%v%t|%v", c.FirstError(), c.URL().Path, qp, qok, len(c.QueryValues()),
			c.IsAjax(), c.IsGet(), c.IsPost(), c.IsTLS(), c.IsWebSocket(), c.SafeGet("k"), c.Value("k"), c.ReqCtxValue(swapKey{}), dl.IsZero(), dok, c.Err())
	}
	return b.String()
}

func sortedKV(m map[string]string) string {
	keys := make([]string, 0, len(m))
	for k := range m {
		keys = append(keys, k)
	}
	sort.Strings(keys)
	var b strings.Builder
	b.WriteByte('{')
	for i, k := range keys {
		if i > 0 {
			b.WriteByte(',')
		}
		b.WriteString(k + "=" + m[k])
	}
	b.WriteByte('}')
	return b.String()
}

func newHTTPRequest(method, path string, rs *reqState) *http.Request {
	// a token derived from the request itself (so that the solo twin carries the same one): query and Accept header
	tok := strconv.FormatUint(hashStr(reqKey(rs.req))%100000, 10)
	u := &url.URL{Scheme: "http", Host: "sim", Path: path, RawQuery: "q=" + tok}
	req := &http.Request{
		Method:     method,
		URL:        u,
		Proto:      "HTTP/1.1",
		ProtoMajor: 1,
		ProtoMinor: 1,
		Header:     http.Header{"Accept": {"application/x-" + tok + ", text/plain;q=0.5"}, "Content-Type": {"text/x-" + tok}, "X-Real-Ip": {"10.0." + tok[:1] + ".1"}},
		Host:       "sim",
		RequestURI: path,
		Body:       http.NoBody,
	}
	req.Header["Cookie"] = []string{"theme=dark", "sid=s" + tok} // two Cookie lines: the first is the same for every request
	if method == "POST" || method == "PUT" || method == "PATCH" {
		req.Header.Set("Content-Type", "application/x-www-form-urlencoded")
		req.Body = io.NopCloser(strings.NewReader("user=u" + tok))
	}
	base := context.WithValue(context.Background(), ctxKey{}, rs)
	if rs.req.Served {
		// what net/http's server puts into every request context
		base = context.WithValue(base, http.ServerContextKey, &http.Server{})
		base = context.WithValue(base, http.LocalAddrContextKey, &net.TCPAddr{IP: net.IPv4(127, 0, 0, 1), Port: 80})
	}
	ctx, cancel := context.WithCancel(base)
	if rs.req.Expired {
		ctx, cancel = context.WithDeadline(base, time.Unix(1, 0)) // a deadline in 1970: passed, whatever the wall clock says
	}
	rs.cancel = cancel
	if rs.req.Gone {
		cancel()
	}
	if rs.req.HTTP10 {
		req.Proto, req.ProtoMajor, req.ProtoMinor = "HTTP/1.0", 1, 0
	}
	return req.WithContext(ctx)
}

// Serve runs one request on the world's router on the calling goroutine.
func (w *World) Serve(task, idx int, rq *Req) *ReqRec {
	rec := &ReqRec{Task: task, Idx: idx, Method: rq.Method, Path: rq.Path, CtxID: -1}
	rs := &reqState{rec: rec, req: rq, started: map[string]int{}}
	rs.sw = NewSimWriter(rq.WFaults)
	rs.sw.rec = rec
	rs.orig = newHTTPRequest(rq.Method, rq.Path, rs)
	t := shCur()
	w.setCur(t, rs)
	rec.StartSeq = shNextSeq()
	hits0, stores0 := taskCacheGet()
	defer func() {
		h1, s1 := taskCacheGet()
		rec.Hits, rec.Stores = h1-hits0, s1-stores0
		if cr := w.R.VerifCache(); cr != nil {
			if w.sc.Pre && shCur() >= 0 {
				// another task may be parked inside the cache's critical section: wait for it like a caller of Lock would
				for !cr.VerifLockFree() {
					taskYieldForced(siteLockWait)
				}
			}
			shQuiet(1) // the walk itself may run through (instrumented) rux code: no preemption inside it
			ks, _ := cr.VerifKeys()
			shQuiet(-1)
			rec.CacheKeys = strings.Join(ks, "\x00")
		}
	}()
	if rq.Kind == "match" {
		func() {
			defer func() {
				if r := recover(); r != nil {
					rec.Escaped = panicString(r)
				}
			}()
			route, ps, allowed := w.R.Match(rq.Method, rq.Path)
			rec.Trace = append(rec.Trace, TItem{K: "match", V: w.matchString(route, ps, allowed)})
			rec.Returned = true
		}()
		rec.EndSeq = shNextSeq()
		w.setCur(t, nil)
		return rec
	}
	func() {
		defer func() {
			if r := recover(); r != nil {
				rec.Escaped = panicString(r)
			}
		}()
		var under http.ResponseWriter = rs.sw
		if rq.Plain {
			under = plainWriter{rs.sw}
		}
		rs.under = under
		if w.wrapped != nil {
			w.wrapped.ServeHTTP(under, rs.orig)
		} else {
			w.R.ServeHTTP(under, rs.orig)
		}
		rec.Returned = true
	}()
	rec.EndSeq = shNextSeq()
	markDone(rec)
	w.setCur(t, nil)
	rec.Calls = rs.sw.Calls
	rec.Snap = rs.sw.Snap
	rec.Body = string(rs.sw.Body)
	rec.Code = rs.sw.Code
	rec.Committed = rs.sw.Committed
	rec.Fired = rs.sw.Fired
	return rec
}

// doPanic panics with a value of the given kind.
func doPanic(kind, id string) {
	switch kind {
	case "err":
		panic(errors.New("boom-err:" + id))
	case "rt":
		var m map[string]int
		m[id] = 1 // runtime error: assignment to entry in nil map
	case "aborthandler":
		panic(http.ErrAbortHandler)
	case "brokenpipe": // what a write on a dead connection returns, wrapped the way net does
		panic(&net.OpError{Op: "write", Net: "tcp", Err: os.NewSyscallError("write", syscall.EPIPE)})
	case "connreset":
		panic(fmt.Errorf("send: %w", &net.OpError{Op: "write", Net: "tcp", Err: os.NewSyscallError("write", syscall.ECONNRESET)}))
	default:
		panic("boom:" + id)
	}
}

// panicValue returns the value doPanic(kind, id) panics with.
func panicValue(kind, id string) (v any) {
	defer func() { v = recover() }()
	doPanic(kind, id)
	return nil
}

func panicString(r any) string {
	switch v := r.(type) {
	case error:
		return fmt.Sprintf("%T:%s", v, v.Error())
	default:
		return fmt.Sprintf("%T:%v", v, v)
	}
}

// ---- map-order seams ----

var orderSeed uint64

func hookOrder(site string, items []string) []string {
	if len(items) < 2 {
		return items
	}
	cp := append([]string{}, items...)
	sort.Strings(cp)
	if orderSeed == 0 {
		return cp
	}
	rng := NewRng(orderSeed, hashStr(site+strings.Join(cp, ",")))
	p := rng.Perm(len(cp))
	out := make([]string, len(cp))
	for i, j := range p {
		out[i] = cp[j]
	}
	probeAdd(prOrderPermuted, 1)
	return out
}

func installHooks() {
	rux.VerifHooks.Yield = ruxYield
	rux.VerifHooks.PoolGet = hookPoolGet
	rux.VerifHooks.PoolPut = hookPoolPut
	rux.VerifHooks.Order = hookOrder
}

// EffPath is the path the router matches for a request with this URL path:
// the escaped form when UseEncodedPath is set (ServeHTTP does the same).
func (w *World) EffPath(path string) string {
	if w.sc.Options.EncodedPath {
		return (&url.URL{Path: path}).EscapedPath()
	}
	return path
}

// BuiltinFallback reports whether a request for (method, path) is answered by
// rux's built-in 404/405 handler (whose writes the harness trace cannot show).
func (w *World) BuiltinFallback(method, path string) bool {
	route, _, allowed := w.R.QuickMatch(method, w.EffPath(path)) // as ServeHTTP does: the method token is taken as it is
	if route != nil {
		return false
	}
	if len(allowed) > 0 {
		return len(w.notAllow) == 0
	}
	return len(w.notFound) == 0
}

func (w *World) matchString(route *rux.Route, ps rux.Params, allowed []string) string {
	al := append([]string{}, allowed...)
	sort.Strings(al)
	if route == nil {
		return "route=nil params=" + sortedKV(ps) + " allowed=[" + strings.Join(al, ",") + "]"
	}
	var mw []string
	for _, h := range route.Handlers() {
		mw = append(mw, w.Identify(h))
	}
	return "route=" + w.Identify(route.Handler()) + " path=" + route.Path() + " name=" + route.Name() +
		" methods=" + strings.Join(route.Methods(), ",") + " mw=[" + strings.Join(mw, ",") + "] params=" + sortedKV(ps) + " allowed=[" + strings.Join(al, ",") + "]"
}
