package main

import (
	"fmt"
)

// C07 — the dynamic-route cache never changes what a request observes.
//
// Histories over a small pool of requests (so hits, misses and evictions all
// occur) on a caching router with a tiny capacity, compared step by step with a
// twin router built from the same program with caching disabled. Profiles:
// sequential (strict, same-history twin), concurrent (each request against the
// non-caching twin's answer for that request alone), and both with cache-loss
// faults (entries deleted or the cache flushed between any two steps).

func genC07(concurrent, faults bool) func(rng *Rng, sc *Scenario) {
	return func(rng *Rng, sc *Scenario) {
		g := NewGen(rng, sc)
		g.GenShape(ShapeCfg{
			MaxRoutes: 7, MaxGlobals: 2, GroupChance: [2]int{1, 4},
			CacheChance: [2]int{1, 1}, Caps: []int{0, 1, 1, 2, 2, 3, 4, 1000},
			FallbackOpts: true,
		})
		// a small pool of requests, drawn with repetition
		poolN := rng.Range(3, 8)
		var reqPool []Req
		for i := 0; i < poolN; i++ {
			reqPool = append(reqPool, g.GenRequest(reqPool))
		}
		nClients := 1
		if concurrent {
			nClients = rng.Range(2, 4)
		}
		total := rng.Range(5, 60)
		if rng.Chance(1, 2) {
			total = rng.Range(5, 16)
		}
		if concurrent {
			total = rng.Range(4, 14)
		}
		sc.Clients = make([]Client, nClients)
		for i := 0; i < total; i++ {
			rq := reqPool[rng.Intn(len(reqPool))]
			if rng.Chance(1, 5) {
				rq.Kind = "match"
			}
			t := rng.Intn(nClients)
			sc.Clients[t].Reqs = append(sc.Clients[t].Reqs, rq)
		}
		for t := range sc.Clients {
			if len(sc.Clients[t].Reqs) == 0 {
				sc.Clients[t].Reqs = append(sc.Clients[t].Reqs, reqPool[0])
			}
		}
		sc.OrderSeed = rng.U64() | 1
		sc.Pool = GenPool(rng)
		sc.Sites = GenSites(rng)
		est := 30 * total
		if concurrent {
			sc.Schedule, _ = GenSchedule(rng, nClients, est)
		}
		if faults {
			n := rng.Range(1, 6)
			for i := 0; i < n; i++ {
				f := CacheFault{AtStep: rng.Range(1, est), Op: rng.Pick([]string{"lru", "mru", "mru", "flush", "delete"})}
				if f.Op == "delete" {
					r := reqPool[rng.Intn(len(reqPool))]
					f.Key = r.Method + r.Path
				}
				sc.CacheFaults = append(sc.CacheFaults, f)
			}
		}
	}
}

func checkC07(sc *Scenario) *CheckOut {
	out := &CheckOut{Faults: map[string]int64{}}
	before := probeSnapshot()
	res := RunConcurrent(sc)
	after := probeSnapshot()
	out.Res = res
	if res.W.regPanic != "" {
		return out
	}
	if res.Abandoned {
		out.Faults = map[string]int64{"pre-run-abandoned": 1}
		return out
	}
	if res.Overrun {
		out.Viol = append(out.Viol, Violation{"C07", "no-progress", "run exceeded its step bound", ""})
		return out
	}
	all := res.All()
	out.Requests = len(all)
	hits := after[prSiteBase+siteIndex("cache.hit")] - before[prSiteBase+siteIndex("cache.hit")]
	stores := after[prSiteBase+siteIndex("cache.store")] - before[prSiteBase+siteIndex("cache.store")]
	out.Faults["cache-hit-served"] = hits
	out.Faults["cache-store"] = stores
	out.Nontrivial = hits > 0 || stores > 1
	var twins []*ReqRec
	if len(sc.Clients) == 1 {
		reqs := make([]*Req, len(sc.Clients[0].Reqs))
		for i := range sc.Clients[0].Reqs {
			reqs[i] = &sc.Clients[0].Reqs[i]
		}
		_, twins = RunSequential(sc, reqs, BuildOpt{NoCache: true})
	}
	tw := newTwinCache(sc, BuildOpt{NoCache: true})
	for _, rec := range all {
		rq := &sc.Clients[rec.Task].Reqs[rec.Idx]
		var twin *ReqRec
		if twins != nil {
			twin = twins[rec.Idx]
		} else {
			twin = tw.Get(rq)
		}
		if rec.Canon() == twin.Canon() {
			continue
		}
		class := "response"
		switch {
		case rq.Kind == "match":
			class = "route"
		case paramsOf(rec) != paramsOf(twin):
			class = "params"
		case enterSeq(rec) != enterSeq(twin):
			class = "chain"
		}
		out.Viol = append(out.Viol, Violation{"C07", class,
			fmt.Sprintf("client %d step %d (%s %s %s) differs between the caching router (capacity %d) and its non-caching twin:\n  caching:     %s\n  non-caching: %s",
				rec.Task, rec.Idx, rq.Kind, rec.Method, rec.Path, sc.Options.Capacity, rec.Canon(), twin.Canon()), ""})
		break
	}
	return out
}

func enterSeq(r *ReqRec) string {
	s := ""
	for _, t := range r.Trace {
		if t.K == "enter" || t.K == "leave" {
			s += t.K[:1] + t.H + " "
		}
	}
	return s
}

func init() {
	rule := "a run is non-trivial when the cache served at least one hit or stored at least two entries"
	register(&Profile{Prop: "C07", Name: "sequential", Quick: 16000, Thorough: 500000, Gen: genC07(false, false), Check: checkC07, Rule: rule})
	register(&Profile{Prop: "C07", Name: "concurrent", Quick: 10000, Thorough: 300000, Gen: genC07(true, false), Check: checkC07, Rule: rule})
	register(&Profile{Prop: "C07", Name: "concurrent-pre", Pre: true, Quick: 4000, Thorough: 40000, Gen: preempt(genC07(true, false)), Check: checkC07,
		Rule: "as concurrent; a task can be preempted before every statement of rux (instrumented copy)"})
	register(&Profile{Prop: "C07", Name: "concurrent-race", Race: true, Quick: 1500, Thorough: 40000, Gen: coarseRace(genC07(true, true)), Check: checkC07,
		Rule: "as concurrent-cacheloss, executed under the race detector with coarse schedules", Faulty: true})
	register(&Profile{Prop: "C07", Name: "sequential-cacheloss", Quick: 10000, Thorough: 300000, Gen: genC07(false, true), Check: checkC07, Rule: rule, Faulty: true})
	register(&Profile{Prop: "C07", Name: "concurrent-cacheloss", Quick: 10000, Thorough: 300000, Gen: genC07(true, true), Check: checkC07, Rule: rule, Faulty: true})
}
