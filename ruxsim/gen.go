package main

import (
	"fmt"
	"strconv"
	"strings"
)

// ---- route patterns and their instantiation ----

var staticPaths = []string{"/", "/a", "/b", "/a/b", "/s/x.html", "/u", "/blog"}
var regularPats = []string{"/u/{id}", "/u/{id}/p/{pid}", "/blog/{name}/{n:\\d+}", "/v/{id:\\d+}", "/u/{id}/edit", "/f/{file:.+}", "/blog/{name}"}
var irregularPats = []string{"/{x}", "/{lang:[a-z]{2}}/docs", "/opt[/{a}]", "/o[/{a}[/{b}]]", "/{x}/{y}", "/about[.html]", "/s/idx[/all]"}

var anyVals = []string{"1", "2", "7", "bob", "x.y"}
var numVals = []string{"1", "2", "42"}
var langVals = []string{"en", "zh"}
var fileVals = []string{"a.css", "d/e.js", "z"}
var allMethods = []string{"GET", "POST", "PUT", "PATCH", "DELETE", "OPTIONS", "HEAD", "CONNECT", "TRACE"}
var commonMethods = []string{"GET", "GET", "GET", "POST", "PUT", "DELETE", "HEAD"}

// instantiate builds a concrete path for a route pattern.
func instantiate(rng *Rng, pat string) string {
	// optional parts: keep a random nesting depth
	depth := strings.Count(pat, "[")
	if depth > 0 {
		keep := rng.Intn(depth + 1)
		var b strings.Builder
		level := 0
		for i := 0; i < len(pat); i++ {
			ch := pat[i]
			if ch == '[' && !inBraces(pat, i) {
				level++
				continue
			}
			if ch == ']' && !inBraces(pat, i) {
				level--
				continue
			}
			if level <= keep {
				b.WriteByte(ch)
			}
		}
		pat = b.String()
	}
	var out strings.Builder
	for i := 0; i < len(pat); {
		if pat[i] != '{' {
			out.WriteByte(pat[i])
			i++
			continue
		}
		// find the matching close brace
		j, lvl := i+1, 1
		for ; j < len(pat) && lvl > 0; j++ {
			if pat[j] == '{' {
				lvl++
			} else if pat[j] == '}' {
				lvl--
			}
		}
		spec := pat[i+1 : j-1]
		re := ""
		if k := strings.IndexByte(spec, ':'); k > 0 {
			re = spec[k+1:]
		}
		switch {
		case strings.Contains(re, `\d`):
			out.WriteString(pickNum(rng))
		case strings.Contains(re, `[a-z]{2}`):
			out.WriteString(rng.Pick(langVals))
		case re == ".+":
			if rng.Chance(1, 10) {
				out.WriteString(exoticVal(rng) + "/" + exoticVal(rng))
			} else {
				out.WriteString(rng.Pick(fileVals))
			}
		default:
			out.WriteString(pickAny(rng))
		}
		i = j
	}
	return out.String()
}

// Values are mostly drawn from tiny pools (so that paths repeat and the cache
// hits); now and then a run gets many distinct values (so that big caches fill
// and evict) or odd ones: long, non-ASCII, reserved characters, leading zeros.
var oddVals = []string{"a-b_c~d", "x%41y", "caf\u00e9", "\u65e5\u672c", "a b", "a+b=c", "(x)", "k:v", "u@h", "'q'", "*", "$1", "a,b;c", "0", "00012", "-1", "null", "..", "...", "%2F"}

func exoticVal(rng *Rng) string {
	switch rng.Intn(5) {
	case 0:
		return strings.Repeat("a", rng.Range(60, 70)) // around 64 bytes
	case 1:
		return strings.Repeat("ab", rng.Range(100, 160)) // a few hundred bytes
	case 2:
		return strings.Repeat("z", rng.Pick2(255, 256)+rng.Intn(2))
	case 3:
		if rng.Chance(1, 3) {
			return strings.Repeat("L", rng.Pick2(2100, 4200)) // longer than any "reasonable" limit somebody might build in
		}
		if rng.Chance(1, 12) {
			return strings.Repeat("H", 66000) // more than 64 KiB
		}
	}
	return rng.Pick(oddVals)
}

func pickAny(rng *Rng) string {
	switch {
	case rng.Chance(1, 12):
		return exoticVal(rng)
	case rng.Chance(1, 8):
		return "k" + strconv.Itoa(rng.Intn(400)) // many distinct keys
	}
	return rng.Pick(anyVals)
}

func pickNum(rng *Rng) string {
	switch {
	case rng.Chance(1, 12):
		return rng.Pick([]string{"00012", "0", "99999999999999999999999", "007", strings.Repeat("9", 70)})
	case rng.Chance(1, 8):
		return strconv.Itoa(rng.Intn(400))
	}
	return rng.Pick(numVals)
}

func inBraces(s string, pos int) bool {
	lvl := 0
	for i := 0; i < pos; i++ {
		if s[i] == '{' {
			lvl++
		} else if s[i] == '}' {
			lvl--
		}
	}
	return lvl > 0
}

// ---- router shapes ----

type ShapeCfg struct {
	MaxRoutes    int
	MaxGlobals   int
	GroupChance  [2]int // num, den
	CacheChance  [2]int
	Caps         []int
	FallbackOpts bool                                        // may set NotFound / NotAllowed handlers, HandleMethodNotAllowed, fallback route
	LongChains   bool                                        // may build chains of 30..62 handlers
	NoRootGroups bool                                        // never use "/" or "" as a group prefix (request paths stay in normal form)
	Scripts      func(g *Gen, id string, kind byte) []Action // nil: default scripts
}

// Gen accumulates a scenario while it is generated.
type Gen struct {
	rng *Rng
	sc  *Scenario
	ids map[byte]int
	// route templates for request generation: method + full pattern
	templates []routeTmpl
}

type routeTmpl struct {
	methods []string
	pat     string // full pattern including group prefixes
}

func NewGen(rng *Rng, sc *Scenario) *Gen {
	if sc.Handlers == nil {
		sc.Handlers = map[string][]Action{}
	}
	return &Gen{rng: rng, sc: sc, ids: map[byte]int{}}
}

func (g *Gen) newID(kind byte, cfg *ShapeCfg) string {
	n := g.ids[kind]
	g.ids[kind] = n + 1
	id := fmt.Sprintf("%c%d", kind, n)
	if cfg != nil && cfg.Scripts != nil {
		if s := cfg.Scripts(g, id, kind); s != nil {
			g.sc.Handlers[id] = s
		}
	}
	return id
}

func (g *Gen) newIDs(kind byte, n int, cfg *ShapeCfg) []string {
	out := make([]string, 0, n)
	for i := 0; i < n; i++ {
		out = append(out, g.newID(kind, cfg))
	}
	return out
}

func joinPath(prefix, p string) string {
	if prefix == "" {
		return p
	}
	if p == "/" {
		return prefix
	}
	return prefix + p
}

// GenShape fills options and the registration program.
func (g *Gen) GenShape(cfg ShapeCfg) {
	rng, sc := g.rng, g.sc
	if rng.Chance(cfg.CacheChance[0], cfg.CacheChance[1]) {
		sc.Options.Caching = true
		sc.Options.Capacity = cfg.Caps[rng.Intn(len(cfg.Caps))]
		if rng.Chance(1, 12) {
			sc.Options.Capacity = []int{5, 8, 16, 64, 255, 256, 65535}[rng.Intn(7)] // boundaries of the uint16 option and mid sizes
		}
		sc.Options.CacheOpt = rng.Pick([]string{"", "", "enable-max", "max-enable"})
	}
	sc.Options.StrictSlash = rng.Chance(1, 6)
	if rng.Chance(1, 5) {
		sc.SharedMW = []string{"s0", "s1"} // see GenShape: some routes are registered with exactly this list
	}
	sc.Options.EncodedPath = rng.Chance(1, 10)
	sc.Options.Wrapped = rng.Chance(1, 10)
	if rng.Chance(1, 15) {
		sc.Options.Intercept = rng.Pick([]string{"/a", "/u/7", "/coming-soon", "/blog/x/1"}) // InterceptAll: everything is resolved as this path
	}
	if cfg.FallbackOpts {
		sc.Options.NotAllowed = rng.Chance(1, 2)
		sc.Options.Fallback = rng.Chance(1, 8)
	}
	var prog []RegOp
	// global middleware: 0..MaxGlobals handlers spread over 1..4 Use calls, some before and some after the routes
	nGlob := rng.Intn(cfg.MaxGlobals + 1)
	var globCalls [][]string
	for left := nGlob; left > 0; {
		k := rng.Range(1, left)
		if rng.Chance(1, 2) {
			k = 1
		}
		globCalls = append(globCalls, g.newIDs('g', k, &cfg))
		left -= k
	}
	lateFrom := len(globCalls)
	if len(globCalls) > 0 && rng.Chance(1, 3) {
		lateFrom = rng.Intn(len(globCalls) + 1)
	}
	for _, c := range globCalls[:lateFrom] {
		prog = append(prog, RegOp{Op: "use", MW: c})
	}
	nRoutes := rng.Range(1, cfg.MaxRoutes)
	if rng.Chance(1, 25) {
		nRoutes = rng.Range(cfg.MaxRoutes, 4*cfg.MaxRoutes) // a big table now and then
	}
	for len(g.templates) < nRoutes {
		if rng.Chance(cfg.GroupChance[0], cfg.GroupChance[1]) {
			prog = append(prog, g.genGroup(&cfg, "", 1, nRoutes))
		} else {
			prog = append(prog, g.genRoute(&cfg, ""))
		}
	}
	for _, c := range globCalls[lateFrom:] {
		prog = append(prog, RegOp{Op: "use", MW: c})
	}
	if cfg.FallbackOpts {
		if rng.Chance(1, 2) {
			prog = append(prog, RegOp{Op: "notfound", MW: g.newIDs('n', rng.Range(1, 2), &cfg)})
		}
		if rng.Chance(1, 2) {
			prog = append(prog, RegOp{Op: "notallowed", MW: g.newIDs('n', rng.Range(1, 2), &cfg)})
		}
		if sc.Options.Fallback {
			if rng.Chance(1, 2) {
				prog = append(prog, RegOp{Op: "route", Via: "any", Path: "/*", H: g.newID('h', &cfg)})
			} else { // fallback routes for some methods only, each with its own handler
				for _, m := range []string{"GET", "HEAD", "POST"} {
					if rng.Chance(2, 3) {
						prog = append(prog, RegOp{Op: "route", Via: "verb", Methods: []string{m}, Path: "/*", H: g.newID('h', &cfg)})
					}
				}
			}
		}
	}
	sc.Program = prog
}

var groupPrefixes = []string{"/api", "/v1", "/g", "/u", "/api", "/v1", "/", ""}

func (g *Gen) genGroup(cfg *ShapeCfg, prefix string, depth, maxRoutes int) RegOp {
	rng := g.rng
	op := RegOp{Op: "group", Path: rng.Pick(groupPrefixes)}
	if cfg.NoRootGroups && len(op.Path) < 2 {
		op.Path = "/g"
	}
	op.MW = g.newIDs('m', rng.Intn(3), cfg)
	if rng.Chance(1, 6) {
		op.Via = "controller"
	}
	full := prefix + op.Path
	if op.Path == "" {
		full = prefix + "/" // Group("") is registered like Group("/")
	}
	n := rng.Range(1, 3)
	for i := 0; i < n; i++ {
		switch {
		case rng.Chance(1, 6):
			op.Body = append(op.Body, RegOp{Op: "use", MW: g.newIDs('m', rng.Range(1, 2), cfg)})
		case depth < 3 && rng.Chance(1, 4):
			op.Body = append(op.Body, g.genGroup(cfg, full, depth+1, maxRoutes))
		default:
			op.Body = append(op.Body, g.genRoute(cfg, full))
		}
	}
	return op
}

func (g *Gen) genRoute(cfg *ShapeCfg, prefix string) RegOp {
	rng := g.rng
	op := RegOp{Op: "route"}
	switch rng.Intn(10) {
	case 0, 1, 2:
		op.Path = rng.Pick(staticPaths)
	case 3, 4, 5, 6, 7:
		op.Path = rng.Pick(regularPats)
	default:
		op.Path = rng.Pick(irregularPats)
	}
	switch rng.Intn(7) {
	case 6:
		op.Via = "attach"
		op.Methods = []string{rng.Pick(commonMethods)}
	case 0:
		op.Via = "add"
		k := rng.Range(1, 3)
		for i := 0; i < k; i++ {
			m := rng.Pick(commonMethods)
			dup := false
			for _, x := range op.Methods {
				dup = dup || x == m
			}
			if !dup {
				op.Methods = append(op.Methods, m)
			}
		}
	case 1:
		op.Via = "named"
		op.Name = fmt.Sprintf("route%d", len(g.templates))
		op.Methods = []string{rng.Pick(commonMethods)}
	case 2:
		op.Via = "any"
	default:
		op.Via = "verb"
		op.Methods = []string{rng.Pick(commonMethods)}
	}
	op.H = g.newID('h', cfg)
	nmw := 0
	if rng.Chance(1, 2) {
		nmw = rng.Range(1, 3)
	}
	if cfg.LongChains && rng.Chance(1, 6) {
		nmw = rng.Range(28, 52)
	}
	op.MW = g.newIDs('r', nmw, cfg)
	if len(g.sc.SharedMW) > 0 && nmw < 5 && rng.Chance(1, 2) {
		op.MW = append([]string{}, g.sc.SharedMW...) // the application's shared list, plus middleware attached later with Route.Use
		if op.Via != "any" {
			op.LaterUse = g.newIDs('l', rng.Range(1, 2), cfg)
		}
	} else if nmw > 0 && nmw < 5 && rng.Chance(1, 8) {
		// one of them is a plain net/http handler mounted with WrapH; sometimes it answers with an error status (and the chain still goes on)
		wid := g.newID('w', nil)
		op.MW[rng.Intn(len(op.MW))] = wid
		switch rng.Intn(3) {
		case 0:
			g.sc.Handlers[wid] = []Action{{Op: "herror", N: rng.Pick2(401, 404), S: "nope"}}
		case 1:
			g.sc.Handlers[wid] = []Action{{Op: "hstatus", N: rng.Pick2(202, 500)}, {Op: "hwrite", S: wid + ";"}}
		}
	}
	if op.Via != "any" && len(op.LaterUse) == 0 && rng.Chance(1, 5) {
		op.LaterUse = g.newIDs('l', rng.Range(1, 2), cfg)
	}
	ms := op.Methods
	if op.Via == "any" {
		ms = allMethods
	}
	g.templates = append(g.templates, routeTmpl{methods: ms, pat: joinPath(prefix, op.Path)})
	return op
}

// GenRequest draws one request against the generated table.
func (g *Gen) GenRequest(prev []Req) Req {
	rng := g.rng
	if len(prev) > 0 && rng.Chance(1, 4) {
		p := prev[rng.Intn(len(prev))]
		return Req{Method: p.Method, Path: p.Path}
	}
	if len(g.templates) == 0 || rng.Chance(1, 8) {
		return Req{Method: rng.Pick(commonMethods), Path: rng.Pick([]string{"/nope", "/u", "/u/1/zzz", "/a/b/c", "/zz/1/2/3"})}
	}
	t := g.templates[rng.Intn(len(g.templates))]
	path := instantiate(rng, t.pat)
	if rng.Chance(1, 8) && path != "/" {
		path += "/"
	}
	m := t.methods[rng.Intn(len(t.methods))]
	switch rng.Intn(10) {
	case 0:
		m = "HEAD"
	case 1:
		m = rng.Pick(allMethods)
	}
	if rng.Chance(1, 20) {
		// the method token is case sensitive on the wire: "get" is not GET (Router.Match upper-cases, ServeHTTP does not)
		if rng.Chance(1, 2) {
			m = strings.ToLower(m)
		} else {
			m = m[:1] + strings.ToLower(m[1:])
		}
	}
	return Req{Method: m, Path: path, Gone: rng.Chance(1, 14), Expired: rng.Chance(1, 20), HTTP10: rng.Chance(1, 12), Served: rng.Chance(1, 3)}
}

// ---- schedules ----

// GenSchedule draws an interleaving for nTasks over roughly estSteps steps.
func GenSchedule(rng *Rng, nTasks, estSteps int) (sched []int, strategy string) {
	if nTasks <= 1 {
		return nil, "single"
	}
	switch rng.Intn(4) {
	case 0: // uniformly random at every step
		strategy = "uniform"
		for i := 0; i < estSteps; i++ {
			sched = append(sched, rng.Intn(nTasks))
		}
	case 1, 2: // PCT-like: run to completion except at d seeded preemption points
		strategy = "pct"
		d := rng.Range(1, 4)
		points := map[int]bool{}
		for i := 0; i < d; i++ {
			points[rng.Intn(estSteps)] = true
		}
		cur := rng.Intn(nTasks)
		for i := 0; i < estSteps; i++ {
			if points[i] {
				nxt := rng.Intn(nTasks - 1)
				if nxt >= cur {
					nxt++
				}
				cur = nxt
			}
			sched = append(sched, cur)
		}
	default: // stall one task for a long stretch (slow node)
		strategy = "stall"
		victim := rng.Intn(nTasks)
		head := rng.Range(1, 6)
		for i := 0; i < head; i++ {
			sched = append(sched, victim)
		}
		for i := 0; i < estSteps; i++ {
			o := rng.Intn(nTasks - 1)
			if o >= victim {
				o++
			}
			sched = append(sched, o)
		}
	}
	return
}

// GenCoarseSchedule: a random order of tasks, each run to completion, with 0..4 preemption points.
func GenCoarseSchedule(rng *Rng, nTasks, estSteps int) []int {
	d := rng.Intn(5)
	points := map[int]bool{}
	for i := 0; i < d; i++ {
		points[rng.Intn(estSteps)] = true
	}
	cur := rng.Intn(nTasks)
	var sched []int
	for i := 0; i < estSteps; i++ {
		if points[i] && nTasks > 1 {
			nxt := rng.Intn(nTasks - 1)
			if nxt >= cur {
				nxt++
			}
			cur = nxt
		}
		sched = append(sched, cur)
	}
	return sched
}

// coarseRace wraps a generator for a race-detector profile: same worlds, but a
// coarse schedule (every task switch costs two collections there, and the
// detector does not need fine interleaving, see Sched.Run).
func coarseRace(gen func(*Rng, *Scenario)) func(*Rng, *Scenario) {
	return func(rng *Rng, sc *Scenario) {
		gen(rng, sc)
		if n := len(sc.Clients); n > 1 {
			est := len(sc.Schedule)
			if est < 40 {
				est = 40
			}
			sc.Schedule = GenCoarseSchedule(NewRng(sc.Seed, uint64(sc.Run), 0xc0a25e), n, est)
		}
	}
}

// preempt wraps a generator for a statement-level preemption profile: same worlds, executed by the
// binary built against the instrumented copy of rux, scheduled by a seeded random walk over a
// random subset of the per-file statement sites.
func preempt(gen func(*Rng, *Scenario)) func(*Rng, *Scenario) {
	return func(rng *Rng, sc *Scenario) {
		gen(rng, sc)
		r := NewRng(sc.Seed, uint64(sc.Run), 0x70726565)
		sc.Pre = true
		sc.Schedule = nil
		sc.CacheFaults = nil
		sc.PreSeed = r.U64() | 1
		sc.PreRate = []int{2, 4, 8, 16, 40, 120}[r.Intn(6)]
		switch r.Intn(4) {
		case 0:
			sc.Sites = append(sc.Sites, "p.route_cache")
		case 1:
			sc.Sites = append(sc.Sites, "p.*")
		default:
			for _, s := range preSites {
				if r.Chance(1, 2) {
					sc.Sites = append(sc.Sites, s)
				}
			}
		}
	}
}

// GenSites draws the subset of yield sites enabled for a run (swarm testing).
func GenSites(rng *Rng) []string {
	var out []string
	for _, s := range ruxSites {
		if rng.Chance(1, 2) {
			out = append(out, s)
		}
	}
	out = append(out, "h.enter")
	if rng.Chance(1, 3) {
		out = append(out, "h.act")
	}
	if rng.Chance(1, 2) {
		out = append(out, "h.next")
	}
	if rng.Chance(1, 3) {
		out = append(out, "h.leave")
	}
	if rng.Chance(1, 3) {
		out = append(out, "w.call")
	}
	if rng.Chance(1, 2) {
		out = append(out, "client.next")
	}
	return out
}

var poolPolicies = []string{"lifo", "fifo", "random", "dirty", "fresh", "lifo"}

func GenPool(rng *Rng) PoolCfg {
	p := PoolCfg{Policy: rng.Pick(poolPolicies), Seed: rng.U64()}
	if rng.Chance(1, 5) {
		p.DropN = rng.Range(2, 4)
	}
	return p
}
