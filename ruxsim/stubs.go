package main

func (w *World) registerResource(op *RegOp) {}

func cmdSelftest(args []string) int { return 0 }
