package main

import (
	"fmt"
	"strings"
)

// C05 — Abort stops every later handler and only later handlers.
//
// Cancellation points: one handler of a request (any kind, any position in the
// chain) aborts before, after or without calling Next(); the other handlers
// call Next() once, twice or not at all. Oracle: invariants over the request's
// own trace (no model of the chain is needed), plus solo twins for the requests
// that did not abort.

var abortOps = []string{"abort", "abortthen", "abortstatus", "abortstatus-msg"}

func abortAction(rng *Rng) Action {
	switch rng.Pick(abortOps) {
	case "abort":
		return Action{Op: "abort"}
	case "abortthen":
		return Action{Op: "abortthen"}
	case "abortstatus":
		return Action{Op: "abortstatus", N: abortCode(rng)}
	}
	return Action{Op: "abortstatus", N: abortCode(rng), S: "denied"}
}

// abortCode: mostly the usual 4xx/5xx, now and then any class of status (1xx, 204, 304, ...).
func abortCode(rng *Rng) int {
	if rng.Chance(1, 4) {
		return []int{100, 101, 103, 200, 204, 205, 301, 304, 400, 404, 418, 451, 500, 599}[rng.Intn(14)]
	}
	return []int{401, 403, 429, 503}[rng.Intn(4)]
}

func c05Scripts(long bool) func(g *Gen, id string, kind byte) []Action {
	return func(g *Gen, id string, kind byte) []Action {
		rng := g.rng
		switch kind {
		case 'h', 'n':
			if rng.Chance(1, 5) {
				return []Action{{Op: "obs"}, {Op: "next"}, {Op: "obs"}}
			}
			return []Action{{Op: "obs"}, {Op: "write", S: id + ";"}}
		}
		if long && rng.Chance(9, 10) {
			return nil
		}
		switch rng.Intn(9) {
		case 0:
			return []Action{{Op: "obs"}} // no Next
		case 1:
			return []Action{{Op: "obs"}, {Op: "next"}, {Op: "obs"}, {Op: "next"}, {Op: "obs"}}
		case 2:
			return []Action{{Op: "obs"}, {Op: "nextrecover"}, {Op: "obs"}} // recovers panics of the rest of the chain
		case 3:
			if rng.Chance(1, 2) {
				return []Action{{Op: "obs"}, {Op: "bufnext"}, {Op: "obs"}} // buffers the response of the rest of the chain
			}
		}
		return nil // default: obs, next, obs
	}
}

// c05FirstRoute finds the first route of the registration program that is not registered with Any,
// at top level or inside (plain) groups, and returns it with its enclosing groups, outermost first.
func c05FirstRoute(ops []RegOp, enclosing []*RegOp) (*RegOp, []*RegOp) {
	for i := range ops {
		op := &ops[i]
		switch {
		case op.Op == "route" && op.Via != "any":
			return op, enclosing
		case op.Op == "group" && op.Via == "":
			if rt, grs := c05FirstRoute(op.Body, append(append([]*RegOp{}, enclosing...), op)); rt != nil {
				return rt, grs
			}
		}
	}
	return nil, nil
}

func genC05(mode string) func(rng *Rng, sc *Scenario) {
	return func(rng *Rng, sc *Scenario) {
		g := NewGen(rng, sc)
		long := mode == "long" || mode == "overlimit" || mode == "atlimit"
		cfg := ShapeCfg{
			MaxRoutes: 5, MaxGlobals: 3, GroupChance: [2]int{1, 3},
			CacheChance: [2]int{1, 4}, Caps: []int{1, 2, 1000},
			FallbackOpts: true, LongChains: long, Scripts: c05Scripts(long),
		}
		if mode == "overlimit" || mode == "atlimit" {
			cfg.MaxRoutes, cfg.MaxGlobals, cfg.GroupChance = 2, 4, [2]int{0, 1}
		}
		if mode == "atlimit" {
			cfg.MaxGlobals = 0
			cfg.GroupChance = [2]int{1, 2} // the limit counts group + route middleware together
		}
		g.GenShape(cfg)
		if mode == "atlimit" {
			// registration must refuse 63 or more group + route middleware ("too many handlers"): try 61..66,
			// for a top-level route or for a route inside groups (the total split between the innermost group
			// and the route, so that each part alone stays under the limit)
			want := rng.Range(61, 66)
			if route, groups := c05FirstRoute(sc.Program, nil); route != nil {
				have := len(route.MW) + len(route.LaterUse)
				for _, gr := range groups {
					have += len(gr.MW)
				}
				toGroup := 0
				if len(groups) > 0 {
					toGroup = rng.Range(0, 45)
				}
				for ; have < want; have++ {
					if toGroup > 0 {
						inner := groups[len(groups)-1]
						inner.MW = append(inner.MW, g.newID('m', &cfg))
						toGroup--
					} else {
						route.MW = append(route.MW, g.newID('r', &cfg))
					}
				}
			}
		}
		if mode == "overlimit" {
			// the registration limit counts group + route middleware only: fill a route up to it and let global middleware push the total over 63
			for i := range sc.Program {
				op := &sc.Program[i]
				if op.Op == "route" && op.Via != "any" {
					for len(op.MW)+len(op.LaterUse) < 62 {
						op.MW = append(op.MW, g.newID('r', &cfg))
					}
					break
				}
			}
			have := 0
			for _, op := range sc.Program {
				if op.Op == "use" {
					have += len(op.MW)
				}
			}
			for ; have < 3; have++ {
				sc.Program = append(sc.Program, RegOp{Op: "use", MW: []string{g.newID('g', &cfg)}})
			}
		}
		nClients := 1
		if mode == "concurrent" {
			nClients = rng.Range(2, 4)
		}
		var prev []Req
		total := 0
		for t := 0; t < nClients; t++ {
			var cl Client
			k := rng.Range(1, 3)
			for i := 0; i < k; i++ {
				rq := g.GenRequest(prev)
				prev = append(prev, Req{Method: rq.Method, Path: rq.Path})
				if rng.Chance(7, 10) {
					dry := SoloTwin(sc, &rq, BuildOpt{})
					var ids []string
					seen := map[string]bool{}
					for _, it := range dry.Trace {
						if it.K == "enter" && !seen[it.H] {
							seen[it.H] = true
							ids = append(ids, it.H)
						}
					}
					if len(ids) > 0 {
						id := ids[rng.Intn(len(ids))]
						if long && rng.Chance(1, 2) {
							id = ids[rng.Intn(1+len(ids)/8)] // early in the chain, so that many handlers follow
						}
						ab := abortAction(rng)
						var s []Action
						switch rng.Intn(4) {
						case 0: // abort without calling Next
							s = []Action{{Op: "obs"}, ab, {Op: "obs"}}
						case 1: // abort, then call Next anyway
							s = []Action{{Op: "obs"}, ab, {Op: "obs"}, {Op: "next"}, {Op: "obs"}}
						case 2: // abort after Next returned
							s = []Action{{Op: "obs"}, {Op: "next"}, {Op: "obs"}, ab, {Op: "obs"}}
						default: // abort, Next twice
							s = []Action{{Op: "obs"}, ab, {Op: "next"}, {Op: "next"}, {Op: "obs"}}
						}
						switch rng.Intn(8) {
						case 0: // a plain abort first, AbortWithStatus later in the same handler
							s = []Action{{Op: "obs"}, {Op: rng.Pick([]string{"abort", "abortthen"})}, {Op: "obs"}, {Op: "abortstatus", N: rng.Pick2(429, 503)}, {Op: "obs"}}
						case 1: // abort, then the handler crashes: what the recovering code sees must still be an aborted request
							s = []Action{{Op: "obs"}, ab, {Op: "obs"}, {Op: "panic", S: "str"}}
							if sc.Options.OnPanic == "" {
								sc.Options.OnPanic = "p0"
								sc.Handlers["p0"] = []Action{{Op: "obs"}}
							}
						}
						rq.Over = map[string][]Action{id: s}
						if rng.Chance(1, 4) {
							// the connection fails at the instant the aborting handler writes
							f := WFault{At: rng.Intn(2), N: rng.Intn(3)}
							if rng.Chance(1, 2) {
								f.Err = "reset"
							}
							rq.WFaults = []WFault{f}
						}
					}
				}
				cl.Reqs = append(cl.Reqs, rq)
				total++
			}
			sc.Clients = append(sc.Clients, cl)
		}
		sc.OrderSeed = rng.U64() | 1
		if mode == "concurrent" && rng.Chance(1, 5) && len(sc.Clients[0].Reqs[0].Over) == 0 {
			sc.Options.OnPanic = "p0" // a recovered panic earlier in the history
			plantPanic(rng, sc, &sc.Clients[0].Reqs[0])
		}
		sc.Pool = PoolCfg{Policy: rng.Pick([]string{"lifo", "dirty", "random", "fifo"}), Seed: rng.U64()}
		sc.Sites = GenSites(rng)
		if nClients > 1 {
			sc.Schedule, _ = GenSchedule(rng, nClients, 40*total)
		}
	}
}

// genC05Redispatch: a non-final handler forwards the request with
// Router.HandleContext to a second route, and a handler of that nested chain
// aborts: nothing of the outer chain may start afterwards either.
func genC05Redispatch(rng *Rng, sc *Scenario) {
	sc.Handlers = map[string][]Action{}
	ng := rng.Intn(3)
	for i := 0; i < ng; i++ {
		sc.Program = append(sc.Program, RegOp{Op: "use", MW: []string{fmt.Sprintf("g%d", i)}})
	}
	na := rng.Range(1, 4) // middleware of the forwarding route
	fwd := rng.Intn(na)
	a := RegOp{Op: "route", Via: "verb", Methods: []string{"GET"}, Path: "/fa", H: "h0"}
	for i := 0; i < na; i++ {
		id := fmt.Sprintf("r%d", i)
		a.MW = append(a.MW, id)
		if i == fwd {
			sc.Handlers[id] = []Action{{Op: "obs"}, {Op: "redispatch", S: "/fb"}, {Op: "obs"}}
			if rng.Chance(1, 2) {
				sc.Handlers[id] = append(sc.Handlers[id], Action{Op: "next"}, Action{Op: "obs"})
			}
		}
	}
	nb := rng.Range(0, 3)
	b := RegOp{Op: "route", Via: "verb", Methods: []string{"GET"}, Path: "/fb", H: "h1"}
	for i := 0; i < nb; i++ {
		b.MW = append(b.MW, fmt.Sprintf("m%d", i))
	}
	// the aborter: one handler of the nested chain that is not in the outer one
	cands := append(append([]string{}, b.MW...), "h1")
	ab := cands[rng.Intn(len(cands))]
	act := abortAction(rng)
	if ab == "h1" || rng.Chance(1, 2) {
		sc.Handlers[ab] = []Action{{Op: "obs"}, act, {Op: "obs"}}
	} else {
		sc.Handlers[ab] = []Action{{Op: "obs"}, act, {Op: "next"}, {Op: "obs"}}
	}
	sc.Program = append(sc.Program, a, b)
	sc.Clients = []Client{{Reqs: []Req{{Method: "GET", Path: "/fa"}}}}
	if rng.Chance(1, 2) {
		sc.Clients = append(sc.Clients, Client{Reqs: []Req{{Method: "GET", Path: "/fb"}, {Method: "GET", Path: "/fa"}}})
		sc.Schedule, _ = GenSchedule(rng, 2, 120)
	}
	sc.Pool = PoolCfg{Policy: rng.Pick([]string{"lifo", "dirty", "fifo"}), Seed: rng.U64()}
	sc.Sites = GenSites(rng)
}

func checkC05(sc *Scenario) *CheckOut {
	out := &CheckOut{Faults: map[string]int64{}}
	res := RunConcurrent(sc)
	out.Res = res
	if res.W.regPanic != "" {
		return out
	}
	nocache := BuildWorld(sc, BuildOpt{NoCache: true})
	if res.Overrun {
		sig, longest := "", 0
		for _, cl := range sc.Clients {
			for _, rq := range cl.Reqs {
				if n := len(expectedChain(res.W, nocache, rq.Method, rq.Path)); n > longest {
					longest = n
				}
			}
		}
		if longest > 63 {
			sig = "chain>63" // (the generators exceed 63 through global middleware only)
		}
		out.Viol = append(out.Viol, Violation{"C05", "no-progress", fmt.Sprintf("a request did not finish within the step bound of the run (%d scheduler steps; longest chain in the scenario: %d handlers)", len(res.Steps), longest), sig})
		return out
	}
	if v := poolViolation("C05", res); v != nil {
		out.Viol = append(out.Viol, *v)
		return out
	}
	all := res.All()
	out.Requests = len(all)
	tw := newTwinCache(sc, BuildOpt{})
	for _, rec := range all {
		if len(out.Viol) > 0 {
			break
		}
		rq := &sc.Clients[rec.Task].Reqs[rec.Idx]
		chainLen := len(expectedChain(res.W, nocache, rec.Method, rec.Path))
		sig := ""
		if chainLen > 63 {
			out.Faults["chain-over-63"]++
			if chainLen-len(res.W.globals) <= 63 {
				// the known finding: global middleware, which the registration-time limit does not count, pushed the chain over 63.
				// A chain that registration itself let grow past 63 is judged like any other (no signature).
				sig = "chain>63"
			}
		} else if chainLen >= 33 {
			out.Faults["chain-33-or-longer"]++
		}
		if len(rec.PanicAt) > 0 {
			out.Faults["handler-panic"]++
			if len(rec.AbortAt) > 0 && rec.AbortAt[0] < rec.PanicAt[0] {
				// the handler aborted and then crashed: whoever looks at the request afterwards (a recovering
				// middleware, the panic hook) must see an aborted request, and nothing of the chain may start
				for i := rec.AbortAt[0] + 1; i < len(rec.Trace); i++ {
					it := rec.Trace[i]
					if it.K == "obs" && !strings.Contains(it.V, " ab=true") {
						out.Viol = append(out.Viol, Violation{"C05", "is-aborted-wrong", fmt.Sprintf("client %d request %d (%s %s): handler %s observed IsAborted()==false after handler %s aborted (and then panicked)\n  trace: %s", rec.Task, rec.Idx, rec.Method, rec.Path, it.H, rec.Trace[rec.AbortAt[0]].H, compactTrace(rec.Trace)), sig})
						break
					}
					if it.K == "enter" && it.H != sc.Options.OnPanic && it.H != sc.Options.OnError {
						out.Viol = append(out.Viol, Violation{"C05", "ran-after-abort", fmt.Sprintf("client %d request %d (%s %s): handler %s started after handler %s aborted (and then panicked)\n  trace: %s", rec.Task, rec.Idx, rec.Method, rec.Path, it.H, rec.Trace[rec.AbortAt[0]].H, compactTrace(rec.Trace)), sig})
						break
					}
				}
			}
			continue // the rest of a panicking request is C09's business
		}
		fail := func(class, format string, a ...any) {
			out.Viol = append(out.Viol, Violation{"C05", class,
				fmt.Sprintf("client %d request %d (%s %s), chain of %d handlers: ", rec.Task, rec.Idx, rec.Method, rec.Path, chainLen) + fmt.Sprintf(format, a...) +
					"\n  trace: " + compactTrace(rec.Trace) + "\n  underlying calls: " + callsString(rec.Calls) + "\n  escaped panic: " + rec.Escaped, sig})
		}
		if rec.Escaped != "" {
			fail("panic", "a panic escaped ServeHTTP although no handler panics")
			continue
		}
		if len(rec.AbortAt) == 0 {
			// nobody aborts: IsAborted() is false throughout, and the request is exactly what it is alone
			for _, it := range rec.Trace {
				if it.K == "obs" && strings.Contains(it.V, " ab=true") {
					fail("is-aborted-wrong", "handler %s observed IsAborted()==true although no handler of this request aborted", it.H)
					break
				}
			}
			if len(out.Viol) == 0 {
				if twin := tw.Get(rq); twin.Canon() != rec.Canon() {
					fail("abort-leaked", "differs from the same request served alone (an abort or anything else of another request leaked):\n  alone: %s", compactTrace(twin.Trace))
				}
			}
			continue
		}
		out.Nontrivial = true
		out.Faults["abort"]++
		p := rec.AbortAt[0]
		aborter := rec.Trace[p].H
		// handlers entered and not left before p, outermost first
		var open []string
		for i := 0; i < p; i++ {
			it := rec.Trace[i]
			switch it.K {
			case "enter":
				open = append(open, it.H)
			case "leave":
				open = open[:len(open)-1]
			case "obs":
				if strings.Contains(it.V, " ab=true") {
					fail("is-aborted-wrong", "handler %s observed IsAborted()==true before handler %s aborted", it.H, aborter)
				}
			}
		}
		if len(out.Viol) > 0 {
			continue
		}
		for i := p + 1; i < len(rec.Trace); i++ {
			it := rec.Trace[i]
			switch it.K {
			case "enter":
				fail("ran-after-abort", "handler %s started after handler %s aborted", it.H, aborter)
			case "leave":
				if len(open) == 0 || open[len(open)-1] != it.H {
					fail("suspended-not-resumed", "handler %s left out of order after the abort (suspended, innermost last: %v)", it.H, open)
				} else {
					open = open[:len(open)-1]
				}
			case "unwind":
				fail("suspended-not-resumed", "handler %s was unwound by a panic after the abort", it.H)
			case "obs":
				if !strings.Contains(it.V, " ab=true") {
					fail("is-aborted-wrong", "handler %s observed IsAborted()==false after handler %s aborted", it.H, aborter)
				}
			}
			if len(out.Viol) > 0 {
				break
			}
		}
		if len(out.Viol) > 0 {
			continue
		}
		if len(open) > 0 {
			fail("suspended-not-resumed", "handlers %v were suspended in Next() when %s aborted and never ran to completion", open, aborter)
			continue
		}
		// the last AbortWithStatus of the request decides the status, unless something was committed before it
		// or a status was set after it
		last := -1
		for _, q := range rec.AbortAt {
			if strings.HasPrefix(rec.Trace[q].V, "status ") {
				last = q
			}
		}
		if last >= 0 {
			committed := false
			for _, c := range rec.Calls {
				if c.At <= last {
					committed = true
				}
			}
			var code int
			fmt.Sscanf(rec.Trace[last].V, "status %d", &code)
			laterStatus := false
			for i := last + 2; i < len(rec.Trace); i++ { // (the item right after the abort is the abort's own status record)
				if rec.Trace[i].K == "do" && (strings.HasPrefix(rec.Trace[i].V, "status:") || strings.HasPrefix(rec.Trace[i].V, "httperr:")) {
					laterStatus = true
				}
			}
			if !committed && !laterStatus && rec.Code != code {
				fail("status", "AbortWithStatus(%d) before the response was committed, but the committed status is %d", code, rec.Code)
			}
		}
	}
	return out
}

// compactTrace drops observation payloads except the abort flag.
func compactTrace(t []TItem) string {
	var b strings.Builder
	for _, x := range t {
		switch x.K {
		case "obs":
			ab := "?"
			if strings.Contains(x.V, " ab=true") {
				ab = "aborted"
			} else if strings.Contains(x.V, " ab=false") {
				ab = "-"
			}
			b.WriteString("obs:" + x.H + "(" + ab + ") ")
		case "do", "w":
		default:
			b.WriteString(x.String() + " ")
		}
	}
	return b.String()
}

func init() {
	rule := "a request is non-trivial when one of its handlers aborted"
	register(&Profile{Prop: "C05", Name: "single", Quick: 30000, Thorough: 600000, Gen: genC05("single"), Check: checkC05, Rule: rule, Faulty: true})
	register(&Profile{Prop: "C05", Name: "concurrent", Quick: 18000, Thorough: 400000, Gen: genC05("concurrent"), Check: checkC05, Rule: rule, Faulty: true})
	register(&Profile{Prop: "C05", Name: "long", Quick: 6000, Thorough: 100000, Gen: genC05("long"), Check: checkC05, Rule: rule, Faulty: true})
	register(&Profile{Prop: "C05", Name: "redispatch-abort", Quick: 6000, Thorough: 100000, Gen: genC05Redispatch, Check: checkC05, Rule: rule, Faulty: true})
	register(&Profile{Prop: "C05", Name: "atlimit", Quick: 3000, Thorough: 60000, Gen: genC05("atlimit"), Check: checkC05, Rule: rule, Faulty: true})
	register(&Profile{Prop: "C05", Name: "overlimit", Quick: 900, Thorough: 20000, Gen: genC05("overlimit"), Check: checkC05, Rule: rule, Faulty: true})
}
