package main

import (
	"fmt"
	"strconv"
	"strings"
)

// C10 — every request starts from a pristine context whatever happened before.
//
// Histories of 4..30 requests on one router; a share of the requests run a
// "dirtying" script that leaves behind everything a handler can leave in its
// context. The simulated pool hands the dirtiest free context to the next
// request. Oracle: what every handler of every request observes, and the whole
// outcome, equal those of the same request as the first request on a fresh
// identical router.

func dirtyScript(rng *Rng, id string, withNext, canPanic bool) []Action {
	s := []Action{{Op: "obs"}}
	n := rng.Range(2, 5)
	nextAt := -1
	if withNext {
		nextAt = rng.Intn(n + 1)
	}
	for i := 0; i <= n; i++ {
		if i == nextAt {
			s = append(s, Action{Op: "next"})
		}
		if i == n {
			break
		}
		switch rng.Intn(15) {
		case 14:
			s = append(s, Action{Op: "editquery"})
		case 12:
			s = append(s, Action{Op: rng.Pick([]string{"copy", "copy", "introspect", "cancelreq", "buildurl", "editquery"}), S: "route" + strconv.Itoa(rng.Intn(4))})
		case 13:
			s = append(s, Action{Op: "usecopy", S: "bgkey", V: id})
		case 0, 1:
			s = append(s, Action{Op: "set", S: "k" + fmt.Sprint(rng.Intn(3)), V: "dirty-" + id})
		case 2:
			if rng.Chance(1, 4) {
				s = append(s, Action{Op: "adderrn", S: "err-" + id + "-", N: []int{2, 15, 16, 17, 33, 70}[rng.Intn(6)]})
			} else {
				s = append(s, Action{Op: "adderr", S: "err-" + id})
			}
		case 3:
			s = append(s, Action{Op: "setparam", S: "id", V: "dirty"})
		case 4:
			s = append(s, Action{Op: rng.Pick([]string{"abort", "abortthen"})})
		case 5:
			s = append(s, Action{Op: "abortstatus", N: 403})
		case 6:
			s = append(s, Action{Op: "status", N: 418})
		case 7:
			s = append(s, Action{Op: "write", S: "dirty;"})
		case 8:
			s = append(s, Action{Op: "swapwriter"})
		case 9:
			s = append(s, Action{Op: "swapreq"})
		case 10:
			s = append(s, Action{Op: "httperr", N: 500, S: "bad"})
		case 11:
			if canPanic {
				s = append(s, Action{Op: "panic", S: rng.Pick(panicKinds)})
			} else {
				s = append(s, Action{Op: "header", S: "X-D", V: "1"})
			}
		}
	}
	s = append(s, Action{Op: "obs"})
	return s
}

func genC10(mode string) func(rng *Rng, sc *Scenario) {
	return func(rng *Rng, sc *Scenario) {
		g := NewGen(rng, sc)
		g.GenShape(ShapeCfg{
			MaxRoutes: 5, MaxGlobals: 3, GroupChance: [2]int{1, 4},
			CacheChance: [2]int{1, 3}, Caps: []int{1, 2, 1000},
			FallbackOpts: true,
		})
		if rng.Chance(1, 2) {
			sc.Options.OnPanic = "p0"
			if rng.Chance(1, 2) {
				sc.Handlers["p0"] = []Action{{Op: "obs"}, {Op: "obsrec"}, {Op: "status", N: 500}, {Op: "write", S: "P"}}
			}
		}
		if rng.Chance(1, 2) {
			sc.Options.OnError = "e0"
		}
		nClients := 1
		if mode == "concurrent" {
			nClients = rng.Range(2, 3)
		}
		total := rng.Range(4, 30)
		if rng.Chance(1, 2) {
			total = rng.Range(4, 10)
		}
		var prev []Req
		sc.Clients = make([]Client, nClients)
		for i := 0; i < total; i++ {
			rq := g.GenRequest(prev)
			prev = append(prev, Req{Method: rq.Method, Path: rq.Path})
			if rng.Chance(2, 5) {
				dry := SoloTwin(sc, &rq, BuildOpt{})
				var ids []string
				seen := map[string]bool{}
				for _, it := range dry.Trace {
					if it.K == "enter" && !seen[it.H] && it.H != "p0" {
						seen[it.H] = true
						ids = append(ids, it.H)
					}
				}
				if len(ids) > 0 {
					id := ids[rng.Intn(len(ids))]
					isMW := id[0] != 'h' && id[0] != 'n' && id[0] != 'e'
					rq.Over = map[string][]Action{id: dirtyScript(rng, id, isMW && rng.Chance(3, 4), sc.Options.OnPanic != "" || rng.Chance(1, 3))}
					if mode == "redispatch" && rng.Chance(1, 2) && len(prev) > 1 {
						// re-dispatch from the main handler to a path whose chain does not contain that handler (no recursion)
						main := ""
						for _, x := range ids {
							if x[0] == 'h' {
								main = x
							}
						}
						other := prev[rng.Intn(len(prev))]
						other.Method = rq.Method
						odry := SoloTwin(sc, &other, BuildOpt{})
						loops := main == ""
						for _, it := range odry.Trace {
							loops = loops || it.H == main
						}
						if !loops {
							rq.Over = map[string][]Action{main: {{Op: "obs"}, {Op: "set", S: "k", V: "before-redispatch"}, {Op: "redispatch", S: other.Path}, {Op: "obs"}}}
						}
					}
				}
			}
			t := rng.Intn(nClients)
			sc.Clients[t].Reqs = append(sc.Clients[t].Reqs, rq)
		}
		for t := range sc.Clients {
			if len(sc.Clients[t].Reqs) == 0 {
				sc.Clients[t].Reqs = append(sc.Clients[t].Reqs, g.GenRequest(nil))
			}
		}
		sc.OrderSeed = rng.U64() | 1
		sc.Pool = PoolCfg{Policy: rng.Pick([]string{"dirty", "dirty", "lifo", "random", "fifo"}), Seed: rng.U64()}
		sc.Sites = GenSites(rng)
		if nClients > 1 {
			sc.Schedule, _ = GenSchedule(rng, nClients, 25*total)
		}
	}
}

func obsFields(v string) map[string]string {
	out := map[string]string{}
	// p=... d=... e=[...] ab=.. st=.. len=.. [req=..] [raw=..] resp=..
	marks := []string{"p=", " d=", " e=[", " ab=", " st=", " len=", " req=", " raw=", " resp=", " acc="}
	pos := make([]int, len(marks))
	for i, m := range marks {
		pos[i] = strings.Index(v, m)
	}
	for i, m := range marks {
		if pos[i] < 0 {
			continue
		}
		end := len(v)
		for j := i + 1; j < len(marks); j++ {
			if pos[j] > pos[i] {
				end = pos[j]
				break
			}
		}
		out[strings.Trim(m, " =[")] = v[pos[i]+len(m) : end]
	}
	return out
}

func classifyLeak(got, want *ReqRec) string {
	var og, ow []TItem
	for _, t := range got.Trace {
		if t.K == "obs" {
			og = append(og, t)
		}
	}
	for _, t := range want.Trace {
		if t.K == "obs" {
			ow = append(ow, t)
		}
	}
	for i := 0; i < len(og) && i < len(ow); i++ {
		if og[i].V == ow[i].V {
			continue
		}
		a, b := obsFields(og[i].V), obsFields(ow[i].V)
		switch {
		case a["p"] != b["p"]:
			return "leak-params"
		case a["d"] != b["d"]:
			return "leak-data"
		case a["e"] != b["e"]:
			return "leak-errors"
		case a["ab"] != b["ab"]:
			return "leak-abort"
		case a["st"] != b["st"] || a["len"] != b["len"] || a["raw"] != b["raw"] || a["resp"] != b["resp"]:
			return "leak-writer"
		case a["req"] != b["req"] || a["acc"] != b["acc"]:
			return "leak-request" // the request itself or what the request-derived getters (accepted types, query, content type, client IP, cookie, posted form) return
		}
	}
	return "outcome"
}

func checkC10(sc *Scenario) *CheckOut {
	out := &CheckOut{Faults: map[string]int64{}}
	res := RunConcurrent(sc)
	out.Res = res
	if res.W.regPanic != "" {
		return out
	}
	if res.Abandoned {
		out.Faults = map[string]int64{"pre-run-abandoned": 1}
		return out
	}
	if res.Overrun {
		out.Viol = append(out.Viol, Violation{"C10", "no-progress", "run exceeded its step bound", ""})
		return out
	}
	all := res.All()
	out.Requests = len(all)
	out.Nontrivial = res.Reuses > 0
	for _, rec := range all {
		if len(rec.PanicAt) > 0 {
			out.Faults["handler-panic"]++
		}
		if len(rec.AbortAt) > 0 {
			out.Faults["abort"]++
		}
	}
	if v := poolViolation("C10", res); v != nil {
		out.Viol = append(out.Viol, *v)
		return out
	}
	tw := newTwinCache(sc, BuildOpt{})
	for _, rec := range all {
		rq := &sc.Clients[rec.Task].Reqs[rec.Idx]
		twin := tw.Get(rq)
		if rec.Canon() == twin.Canon() {
			continue
		}
		class := classifyLeak(rec, twin)
		out.Viol = append(out.Viol, Violation{"C10", class,
			fmt.Sprintf("client %d request %d (%s %s, context #%d) differs from the same request as first request on a fresh router:\n  in history: %s\n  fresh:      %s",
				rec.Task, rec.Idx, rec.Method, rec.Path, rec.CtxID, rec.Canon(), twin.Canon()), ""})
		break
	}
	return out
}

func init() {
	rule := "a run is non-trivial when at least one request received a context that an earlier request had used (measured by object identity in the simulated pool)"
	register(&Profile{Prop: "C10", Name: "sequential", Quick: 16000, Thorough: 500000, Gen: genC10("sequential"), Check: checkC10, Rule: rule, Faulty: true})
	register(&Profile{Prop: "C10", Name: "concurrent-pre", Pre: true, Quick: 2000, Thorough: 40000, Gen: preempt(genC10("concurrent")), Check: checkC10,
		Rule: "as concurrent; a task can be preempted before every statement of rux (instrumented copy)"})
	register(&Profile{Prop: "C10", Name: "concurrent-race", Race: true, Quick: 1500, Thorough: 40000, Gen: coarseRace(genC10("concurrent")), Check: checkC10,
		Rule: "as concurrent, executed under the race detector with coarse schedules", Faulty: true})
	register(&Profile{Prop: "C10", Name: "concurrent", Quick: 10000, Thorough: 300000, Gen: genC10("concurrent"), Check: checkC10, Rule: rule, Faulty: true})
	register(&Profile{Prop: "C10", Name: "redispatch", Quick: 9000, Thorough: 100000, Gen: genC10("redispatch"), Check: checkC10, Rule: rule, Faulty: true})
}
