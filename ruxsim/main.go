package main

import (
	"bufio"
	"encoding/json"
	"flag"
	"fmt"
	"os"
	"runtime"
	"strconv"
	"strings"
	"time"

	_ "github.com/anishathalye/porcupine"
)

// Profile is one configuration of a property's check: a generator, an oracle, a budget.
type Profile struct {
	Prop     string
	Name     string
	Race     bool // needs the -race binary; a race report is a violation of class data-race
	Pre      bool // needs the binary built against the instrumented copy of rux (statement-level preemption)
	Quick    int  // runs in the quick tier
	Thorough int  // runs in the thorough tier
	Gen      func(rng *Rng, sc *Scenario)
	Check    func(sc *Scenario) *CheckOut
	Rule     string // what makes a run non-trivial
	Faulty   bool   // fault-injecting configuration (kept apart from fault-free ones)
}

var profiles []*Profile

func register(p *Profile) { profiles = append(profiles, p) }

func profilesOf(prop string) []*Profile {
	var out []*Profile
	for _, p := range profiles {
		if p.Prop == prop {
			out = append(out, p)
		}
	}
	return out
}

func findProfile(prop, name string) *Profile {
	for _, p := range profiles {
		if p.Prop == prop && p.Name == name {
			return p
		}
	}
	return nil
}

func makeScenario(p *Profile, seed uint64, run int) *Scenario {
	rng := NewRng(seed, hashStr(p.Prop+"/"+p.Name), uint64(run))
	sc := &Scenario{Property: p.Prop, Profile: p.Name, Seed: seed, Run: run, Race: p.Race}
	p.Gen(rng, sc)
	return sc
}

func init() {
	register(&Profile{Prop: "C03", Name: "concurrent", Quick: 12000, Thorough: 400000, Gen: genC03, Check: checkC03,
		Rule: "a run is non-trivial when the executed schedule switched between different in-flight requests at least twice"})
	register(&Profile{Prop: "C03", Name: "concurrent-pre", Pre: true, Quick: 6000, Thorough: 60000, Gen: preempt(genC03), Check: checkC03,
		Rule: "as concurrent; a task can be preempted before every statement of rux (binary built against the instrumented copy)"})
	register(&Profile{Prop: "C03", Name: "concurrent-race", Race: true, Quick: 3000, Thorough: 80000, Gen: genC03Race, Check: checkC03,
		Rule: "as concurrent; executed in a -race build in which baton hand-offs are invisible to the detector"})
}

func main() {
	if len(os.Args) < 2 {
		fmt.Fprintln(os.Stderr, "usage: ruxsim check|worker|exec|replay|gen ...")
		os.Exit(2)
	}
	installHooks()
	// one P per simulated task plus the scheduler keeps baton hand-offs fast;
	// results do not depend on it (see selftest determinism).
	if os.Getenv("RUXSIM_KEEP_GOMAXPROCS") == "" {
		runtime.GOMAXPROCS(maxTasks + 2)
	}
	switch os.Args[1] {
	case "check":
		os.Exit(cmdCheck(os.Args[2:]))
	case "worker":
		os.Exit(cmdWorker(os.Args[2:]))
	case "exec":
		os.Exit(cmdExec(os.Args[2:]))
	case "replay":
		os.Exit(cmdReplay(os.Args[2:]))
	case "gen":
		os.Exit(cmdGen(os.Args[2:]))
	case "digest":
		os.Exit(cmdDigest(os.Args[2:]))
	case "selftest":
		os.Exit(cmdSelftest(os.Args[2:]))
	default:
		fmt.Fprintln(os.Stderr, "unknown command", os.Args[1])
		os.Exit(2)
	}
}

func envSeed() uint64 {
	if s := os.Getenv("VERIF_SEED"); s != "" {
		if v, err := strconv.ParseUint(s, 10, 64); err == nil {
			return v
		}
		if v, err := strconv.ParseInt(s, 10, 64); err == nil {
			return uint64(v)
		}
	}
	return 20261002
}

// ---- gen: print a scenario ----

func cmdGen(args []string) int {
	fs := flag.NewFlagSet("gen", flag.ExitOnError)
	prop := fs.String("prop", "", "")
	prof := fs.String("profile", "", "")
	seed := fs.Uint64("seed", envSeed(), "")
	run := fs.Int("run", 0, "")
	fs.Parse(args)
	p := findProfile(*prop, *prof)
	if p == nil {
		fmt.Fprintln(os.Stderr, "no such profile")
		return 2
	}
	os.Stdout.Write(makeScenario(p, *seed, *run).JSON())
	fmt.Println()
	return 0
}

// ---- exec: run one scenario file, print the outcome ----

type ExecOut struct {
	Viol     []Violation `json:"violations"`
	Steps    int         `json:"steps"`
	Schedule string      `json:"schedule,omitempty"`
	Log      []string    `json:"log,omitempty"`
}

func execScenario(sc *Scenario, verbose bool) *ExecOut {
	p := findProfile(sc.Property, sc.Profile)
	if p == nil {
		fatalf("scenario names unknown profile %s/%s", sc.Property, sc.Profile)
	}
	raceBefore := raceErrors()
	co := p.Check(sc)
	out := &ExecOut{Viol: co.Viol}
	if co.Res != nil {
		out.Steps = len(co.Res.Steps)
		if verbose {
			s := Sched{Steps: co.Res.Steps}
			out.Schedule = s.String()
			for _, r := range co.Res.All() {
				out.Log = append(out.Log, fmt.Sprintf("client %d req %d %s %s ctx=%d: %s", r.Task, r.Idx, r.Method, r.Path, r.CtxID, r.Canon()))
			}
		}
	}
	if n := raceErrors() - raceBefore; n > 0 {
		rv := raceViolation(sc.Property)
		abandoned := co.Res != nil && co.Res.Overrun
		if !abandoned && strings.Count(rv.Sig, "in ?") < 2 { // (see cmdWorker)
			out.Viol = append(out.Viol, rv)
		}
	}
	return out
}

func cmdExec(args []string) int {
	fs := flag.NewFlagSet("exec", flag.ExitOnError)
	file := fs.String("file", "", "")
	verbose := fs.Bool("v", false, "")
	fs.Parse(args)
	sc, err := LoadScenario(*file)
	if err != nil {
		fmt.Fprintln(os.Stderr, err)
		return 2
	}
	if sc.Race && !raceEnabled {
		fmt.Fprintln(os.Stderr, "scenario needs the -race binary")
		return 2
	}
	if sc.Pre && !preEnabled {
		fmt.Fprintln(os.Stderr, "scenario needs the binary built against the instrumented copy of rux (ruxsim-pre)")
		return 2
	}
	startWatchdog(60 * time.Second)
	out := execScenario(sc, *verbose)
	b, _ := json.Marshal(out)
	fmt.Println(string(b))
	if len(out.Viol) > 0 {
		return 1
	}
	return 0
}

// ---- worker: run a slice of a profile's runs ----

type WorkerViol struct {
	Type     string    `json:"type"` // "viol"
	Run      int       `json:"run"`
	Viol     Violation `json:"viol"`
	Scenario *Scenario `json:"scenario"`
	Fatal    bool      `json:"fatal,omitempty"`
	Switches []PPoint  `json:"switches,omitempty"` // the executed schedule of the history run, as explicit points (preemption profiles)
}

type WorkerStats struct {
	Type        string           `json:"type"` // "stats"
	Runs        int              `json:"runs"`
	LastRun     int              `json:"lastRun"`
	Steps       int64            `json:"steps"`
	Requests    int64            `json:"requests"`
	Nontrivial  []uint64         `json:"nontrivial"` // hashes of non-trivial runs (scenario shape x executed schedule)
	Interleave  []uint64         `json:"interleave"` // hashes of executed schedules
	States      []uint64         `json:"states"`     // abstract state hashes
	Probes      map[string]int64 `json:"probes"`
	Faults      map[string]int64 `json:"faults"`
	Samples     []*Scenario      `json:"samples,omitempty"`
	RegRejected int              `json:"regRejected"`
}

func cmdWorker(args []string) int {
	fs := flag.NewFlagSet("worker", flag.ExitOnError)
	prop := fs.String("prop", "", "")
	prof := fs.String("profile", "", "")
	seed := fs.Uint64("seed", envSeed(), "")
	from := fs.Int("from", 0, "")
	to := fs.Int("to", 0, "")
	stride := fs.Int("stride", 1, "")
	offset := fs.Int("offset", 0, "")
	samples := fs.Int("samples", 0, "")
	fs.Parse(args)
	p := findProfile(*prop, *prof)
	if p == nil {
		fmt.Fprintln(os.Stderr, "no such profile")
		return 2
	}
	if p.Race && !raceEnabled {
		fmt.Fprintln(os.Stderr, "profile needs the -race binary")
		return 2
	}
	if p.Pre && !preEnabled {
		fmt.Fprintln(os.Stderr, "profile needs the binary built against the instrumented copy of rux (ruxsim-pre)")
		return 2
	}
	startWatchdog(60 * time.Second)
	w := bufio.NewWriter(os.Stdout)
	defer w.Flush()
	enc := json.NewEncoder(w)
	st := &WorkerStats{Type: "stats", Faults: map[string]int64{}}
	nt := map[uint64]struct{}{}
	il := map[uint64]struct{}{}
	states := map[uint64]struct{}{}
	probeReset()
	exit := 0
	for run := *from; run < *to; run++ {
		if run%*stride != *offset {
			continue
		}
		sc := makeScenario(p, *seed, run)
		raceBefore := raceErrors()
		firstSwitches, firstSwitchesSet = nil, false
		co := p.Check(sc)
		st.Runs++
		st.LastRun = run
		fatal := false
		if co.Res != nil {
			st.Steps += int64(len(co.Res.Steps))
			il[co.Res.SchedHash] = struct{}{}
			if len(states) < 400000 {
				for _, s := range co.Res.States {
					states[s] = struct{}{}
				}
			}
			if co.Res.W != nil && co.Res.W.regPanic != "" {
				st.RegRejected++
			}
			for _, r := range co.Res.All() {
				for _, f := range r.Fired {
					st.Faults[f]++
				}
			}
			st.Faults["cache-loss"] += int64(co.Res.CacheFaultsApplied)
			st.Faults["pool-drop"] += int64(co.Res.Drops)
			st.Faults["pool-reuse"] += int64(co.Res.Reuses)
			fatal = co.Res.Overrun
		}
		for k, v := range co.Faults {
			st.Faults[k] += v
		}
		st.Requests += int64(co.Requests)
		if co.Nontrivial {
			nt[scenarioShapeHash(sc, co)] = struct{}{}
		}
		if len(st.Samples) < *samples && co.Nontrivial {
			st.Samples = append(st.Samples, sc)
		}
		if n := raceErrors() - raceBefore; n > 0 {
			fatal = true
			rv := raceViolation(p.Prop)
			switch {
			case co.Res != nil && co.Res.Overrun:
				// the run was abandoned with tasks still parked: the scheduler reading their partial records races with
				// them by construction. The no-progress violation is the verdict; this report is not about rux.
			case strings.Count(rv.Sig, "in ?") >= 2 && len(co.Viol) > 0:
				// neither stack has a frame of package rux, in a run that already violates the property (requests
				// sharing a context make the harness's own per-request records shared too): not reported separately
			case strings.Count(rv.Sig, "in ?") >= 2:
				// neither side of the report has a frame of package rux: the harness itself, not the router.
				// (One side without a rux frame is normal: handler code reading what rux handed to it.)
				fmt.Fprintf(os.Stderr, "ruxsim: race report without any rux frame (harness):\n%s\n", rv.Detail)
				w.Flush()
				os.Exit(5)
			default:
				co.Viol = append(co.Viol, rv)
			}
		}
		for _, v := range co.Viol {
			wv := WorkerViol{Type: "viol", Run: run, Viol: v, Scenario: sc, Fatal: fatal}
			if sc.Pre && sc.PreRate > 0 {
				wv.Switches = firstSwitches
			}
			enc.Encode(wv)
		}
		if fatal {
			exit = 3
			break
		}
	}
	for h := range nt {
		st.Nontrivial = append(st.Nontrivial, h)
	}
	for h := range il {
		st.Interleave = append(st.Interleave, h)
	}
	for h := range states {
		st.States = append(st.States, h)
	}
	st.Probes = probeMap(probeSnapshot())
	enc.Encode(st)
	return exit
}

// scenarioShapeHash identifies a run by what was executed: the scenario minus bookkeeping, and the schedule actually taken.
func scenarioShapeHash(sc *Scenario, co *CheckOut) uint64 {
	c := *sc
	c.Seed, c.Run = 0, 0
	c.Schedule = nil
	b, _ := json.Marshal(&c)
	h := hashStr(string(b))
	if co.Res != nil {
		h ^= mix64(co.Res.SchedHash)
	}
	return h
}

// ---- watchdog ----

func startWatchdog(limit time.Duration) {
	go func() {
		last := shProgress()
		lastChange := time.Now()
		for {
			time.Sleep(500 * time.Millisecond)
			cur := shProgress()
			if cur != last {
				last, lastChange = cur, time.Now()
				continue
			}
			if shWaiting() && time.Since(lastChange) > limit {
				fmt.Fprintln(os.Stderr, "ruxsim: WATCHDOG: a simulated task made no progress for", limit, "- a lock held across a yield point or a harness bug; not a verdict")
				os.Exit(4)
			}
		}
	}()
}
