package main

import (
	"sync/atomic"

	"github.com/gookit/rux"
)

// The simulated context pool. sync.Pool decides at random which context a
// request receives (and, in race builds, drops one Put in four); here the
// simulator keeps the free list and chooses by policy. The real pool only ever
// receives throw-away contexts, so whatever it returns is equivalent to a fresh
// one.
//
// Shared between tasks: fixed arrays, touched only in //go:norace functions.
// The happens-before edge sync.Pool gives between Put(x) and the Get that
// returns x is reproduced with one atomic cell per object, and nothing more.

const maxCtx = 512

var pool struct {
	on       bool
	policy   int
	rng      uint64
	dropN    int
	putCount int

	free  [maxCtx]int // ids in the free list, in Put order
	nfree int

	known   [maxCtx]*rux.Context
	owner   [maxCtx]int // which pool (router) the context belongs to
	nknown  int
	pools   [8]any
	npools  int
	dirt    [maxCtx]int  // dirtiness score recorded at Put
	inUse   [maxCtx]bool // handed out and not yet returned
	lastPan [maxCtx]bool

	// statistics / violations
	gets, puts, reuses, drops int
	doublePut, putNotOut      int
	sharedOut                 int
	lastGetID                 int
}

var poolCells [maxCtx]uint32

const (
	polFresh = iota
	polLIFO
	polFIFO
	polRandom
	polDirty
)

func poolPolicy(name string) int {
	switch name {
	case "lifo":
		return polLIFO
	case "fifo":
		return polFIFO
	case "random":
		return polRandom
	case "dirty":
		return polDirty
	}
	return polFresh
}

//go:norace
func poolReset(cfg PoolCfg) {
	pool.on = cfg.Policy != "real" && cfg.Policy != ""
	pool.policy = poolPolicy(cfg.Policy)
	pool.rng = cfg.Seed
	pool.dropN = cfg.DropN
	pool.putCount = 0
	pool.nfree = 0
	for i := 0; i < pool.nknown; i++ {
		pool.known[i] = nil
		pool.inUse[i] = false
		pool.dirt[i] = 0
	}
	pool.nknown = 0
	for i := 0; i < pool.npools; i++ {
		pool.pools[i] = nil
	}
	pool.npools = 0
	pool.gets, pool.puts, pool.reuses, pool.drops = 0, 0, 0, 0
	pool.doublePut, pool.putNotOut, pool.sharedOut = 0, 0, 0
}

//go:norace
func poolIDOf(c *rux.Context) int {
	for i := 0; i < pool.nknown; i++ {
		if pool.known[i] == c {
			return i
		}
	}
	return -1
}

//go:norace
func poolRegister(c *rux.Context, owner int) int {
	if pool.nknown >= maxCtx {
		return -1
	}
	pool.known[pool.nknown] = c
	pool.owner[pool.nknown] = owner
	pool.nknown++
	return pool.nknown - 1
}

// poolIndex numbers the pools (routers) of a world in order of first use.
//
//go:norace
func poolIndex(p any) int {
	for i := 0; i < pool.npools; i++ {
		if pool.pools[i] == p {
			return i
		}
	}
	if pool.npools < len(pool.pools) {
		pool.pools[pool.npools] = p
		pool.npools++
		return pool.npools - 1
	}
	return 0
}

//go:norace
func poolNextRand() uint64 {
	pool.rng += 0x9e3779b97f4a7c15
	z := pool.rng
	z = (z ^ (z >> 30)) * 0xbf58476d1ce4e5b9
	z = (z ^ (z >> 27)) * 0x94d049bb133111eb
	return z ^ (z >> 31)
}

// poolTake chooses and removes a free id, or returns -1.
//
//go:norace
func poolTake(owner int) int {
	if pool.nfree == 0 || pool.policy == polFresh {
		return -1
	}
	// candidates: the free contexts of this pool
	var cand [maxCtx]int
	nc := 0
	for i := 0; i < pool.nfree; i++ {
		if pool.owner[pool.free[i]] == owner {
			cand[nc] = i
			nc++
		}
	}
	if nc == 0 {
		return -1
	}
	k := 0
	switch pool.policy {
	case polLIFO:
		k = cand[nc-1]
	case polFIFO:
		k = cand[0]
	case polRandom:
		// one time in four behave like an empty pool, as a GC'd or per-P-missed pool does
		if poolNextRand()%4 == 0 {
			return -1
		}
		k = cand[int(poolNextRand()%uint64(nc))]
	case polDirty:
		best := -1
		for j := 0; j < nc; j++ {
			if d := pool.dirt[pool.free[cand[j]]]; d >= best {
				best, k = d, cand[j]
			}
		}
	}
	id := pool.free[k]
	for i := k; i+1 < pool.nfree; i++ {
		pool.free[i] = pool.free[i+1]
	}
	pool.nfree--
	return id
}

//go:norace
func poolGetChoose(owner int) (*rux.Context, int, bool) {
	pool.gets++
	id := poolTake(owner)
	if id < 0 {
		return nil, -1, false
	}
	pool.reuses++
	if pool.inUse[id] {
		pool.sharedOut++ // handed out while another request still holds it (only possible after a double Put)
	}
	pool.inUse[id] = true
	pool.lastGetID = id
	return pool.known[id], id, true
}

//go:norace
func poolRegisterInUse(c *rux.Context, owner int) int {
	id := poolRegister(c, owner)
	if id >= 0 {
		pool.inUse[id] = true
	}
	pool.lastGetID = id
	return id
}

// poolPutRecord returns the id and whether the object joined the free list.
//
//go:norace
func poolPutRecord(c *rux.Context, dirt, owner int) (int, bool) {
	pool.puts++
	pool.putCount++
	id := poolIDOf(c)
	if id < 0 {
		id = poolRegister(c, owner) // a context the pool never handed out (HandleContext on a foreign context)
		if id < 0 {
			return -1, false
		}
	}
	for i := 0; i < pool.nfree; i++ {
		if pool.free[i] == id {
			pool.doublePut++ // already free: a second Put of the same object (sync.Pool would hold it twice; so do we)
			break
		}
	}
	if !pool.inUse[id] {
		pool.putNotOut++ // released although no request holds it: also a second Put, after the first copy was handed out again or not
	}
	pool.inUse[id] = false
	pool.dirt[id] = dirt
	if pool.dropN > 0 && pool.putCount%pool.dropN == 0 {
		pool.drops++
		return id, false
	}
	if pool.nfree < maxCtx {
		pool.free[pool.nfree] = id
		pool.nfree++
	}
	return id, true
}

//go:norace
func poolStats() (gets, puts, reuses, drops, doublePut int) {
	return pool.gets, pool.puts, pool.reuses, pool.drops, pool.doublePut + pool.putNotOut + pool.sharedOut
}

//go:norace
func poolOn() bool { return pool.on }

//go:norace
func poolFreeSnapshot(buf *[16]int) int {
	n := pool.nfree
	if n > 16 {
		n = 16
	}
	for i := 0; i < n; i++ {
		buf[i] = pool.free[i]
	}
	return n
}

// hook bodies (instrumented on purpose: the atomic cells are the only
// synchronisation the pool contributes)

func hookPoolGet(p any, newFn func() any) any {
	if !poolOn() {
		return newFn() // outside a simulated run (solo twins): every request gets a fresh context
	}
	owner := poolIndex(p)
	c, id, reused := poolGetChoose(owner)
	if !reused {
		c = newFn().(*rux.Context)
		id = poolRegisterInUse(c, owner)
	}
	if reused && id >= 0 {
		atomic.LoadUint32(&poolCells[id]) // acquire: pairs with the Put that released this object
	}
	return c
}

func hookPoolPut(p any, x any) {
	c, ok := x.(*rux.Context)
	if !ok || c == nil || !poolOn() {
		return
	}
	d := dirtiness(c)
	id, _ := poolPutRecord(c, d, poolIndex(p))
	if id >= 0 {
		atomic.StoreUint32(&poolCells[id], 1) // release
	}
}

// dirtiness scores what a finished request left behind in its context (public API only).
func dirtiness(c *rux.Context) int {
	d := len(c.Data()) + 2*len(c.Errors) + len(c.Params)
	if c.IsAborted() {
		d += 3
	}
	if c.StatusCode() != 0 {
		d++
	}
	if c.Length() > 0 {
		d++
	}
	return d
}
