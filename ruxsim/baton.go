package main

import (
	"os"
	"syscall"
	"unsafe"
)

// The baton.
//
// Exactly one goroutine of a simulated world runs at any time: the scheduler
// (main goroutine) or one task. The baton is passed by writing four bytes into
// the receiver's pipe with a raw write(2) and blocking in a raw read(2) on
// one's own pipe. Both are issued through syscall.Syscall from //go:norace
// functions, so the race detector sees no synchronisation between tasks at a
// hand-off: execution is strictly sequential and repeatable, yet two accesses
// of different tasks are ordered for the detector only by synchronisation that
// rux itself performs. (syscall.Read/Write would not do: they carry race
// annotations. Channels, mutexes and atomics would not do either.)
//
// Everything the harness shares between tasks lives in fixed-size arrays and
// scalars touched only from //go:norace functions (no maps, no append: the
// runtime instruments those internally).

const (
	maxTasks = 8
	maxSites = 64
)

const (
	msgYield = 1
	msgDone  = 2
)

type pipeFD struct{ r, w int }

var pipes [maxTasks + 1]pipeFD // 0: scheduler, 1+t: task t
var pipesReady bool

func initPipes() {
	if pipesReady {
		return
	}
	for i := range pipes {
		var p [2]int
		if err := syscall.Pipe2(p[:], syscall.O_CLOEXEC); err != nil {
			fatalf("pipe2: %v", err)
		}
		pipes[i] = pipeFD{p[0], p[1]}
	}
	pipesReady = true
}

//go:norace
func rawWrite4(fd int, b *[4]byte) {
	for {
		n, _, e := syscall.Syscall(syscall.SYS_WRITE, uintptr(fd), uintptr(unsafe.Pointer(b)), 4)
		if e == syscall.EINTR {
			continue
		}
		if e != 0 || n != 4 {
			os.Stderr.WriteString("ruxsim: baton write failed\n")
			os.Exit(2)
		}
		return
	}
}

//go:norace
func rawRead4(fd int, b *[4]byte) {
	for {
		n, _, e := syscall.Syscall(syscall.SYS_READ, uintptr(fd), uintptr(unsafe.Pointer(b)), 4)
		if e == syscall.EINTR {
			continue
		}
		if e != 0 || n != 4 {
			os.Stderr.WriteString("ruxsim: baton read failed\n")
			os.Exit(2)
		}
		return
	}
}

// shared scheduler state, norace access only
var sh struct {
	active      bool
	cur         int // task holding the baton, -1: scheduler
	siteEnabled [maxSites]bool
	seq         int64 // global event sequence number
	progress    int64 // watchdog heartbeat
	quiet       int   // >0: rux-side yield sites are ignored (the running task walks a Go map)
}

//go:norace
func shQuiet(d int) { sh.quiet += d }

//go:norace
func shIsQuiet() bool { return sh.quiet > 0 }

//go:norace
func shSetActive(a bool) { sh.active = a; sh.cur = -1; sh.quiet = 0 }

//go:norace
func shSetCur(t int) { sh.cur = t }

//go:norace
func shCur() int {
	if !sh.active {
		return -1
	}
	return sh.cur
}

//go:norace
func shEnable(site int, on bool) { sh.siteEnabled[site] = on }

//go:norace
func shNextSeq() int64 { sh.seq++; sh.progress++; return sh.seq }

//go:norace
func shResetSeq() { sh.seq = 0 }

//go:norace
func shProgress() int64 { return sh.progress }

//go:norace
func shWaiting() bool { return sh.active }

// taskYield is called by the baton holder; it returns when the scheduler hands the baton back.
//
//go:norace
func taskYield(site int) {
	if !sh.active || sh.cur < 0 {
		return
	}
	if site >= 0 {
		probes[prSiteBase+site]++
		if !sh.siteEnabled[site] {
			return
		}
	}
	t := sh.cur
	var b [4]byte
	b[0] = msgYield
	b[1] = byte(t)
	b[2] = byte(site)
	rawWrite4(pipes[0].w, &b)
	rawRead4(pipes[t+1].r, &b)
}

// taskYieldForced yields whether or not the site is enabled.
//
//go:norace
func taskYieldForced(site int) {
	if !sh.active || sh.cur < 0 {
		return
	}
	t := sh.cur
	if site >= 0 {
		probes[prSiteBase+site]++
	}
	var b [4]byte
	b[0] = msgYield
	b[1] = byte(t)
	b[2] = byte(site)
	rawWrite4(pipes[0].w, &b)
	rawRead4(pipes[t+1].r, &b)
}

// taskWaitStart blocks a freshly started task until it first receives the baton.
//
//go:norace
func taskWaitStart(t int) {
	var b [4]byte
	rawRead4(pipes[t+1].r, &b)
}

// taskDone tells the scheduler the task has finished; the task goroutine then exits.
//
//go:norace
func taskDone(t int) {
	var b [4]byte
	b[0] = msgDone
	b[1] = byte(t)
	rawWrite4(pipes[0].w, &b)
}

// schedResume hands the baton to task t and blocks until some task yields or finishes.
//
//go:norace
func schedResume(t int) (kind, task, site int) {
	sh.cur = t
	sh.progress++
	var b [4]byte
	rawWrite4(pipes[t+1].w, &b)
	rawRead4(pipes[0].r, &b)
	sh.cur = -1
	return int(b[0]), int(b[1]), int(b[2])
}
