package main

import (
	"bufio"
	"bytes"
	"encoding/json"
	"flag"
	"fmt"
	"os"
	"os/exec"
	"path/filepath"
	"sort"
	"strings"
	"sync"
	"time"
)

// verifDir is /verif (the directory holding known_findings.json, evidence/, out/).
func verifDir() string {
	if d := os.Getenv("RUXSIM_VERIF_DIR"); d != "" {
		return d
	}
	return "/verif"
}

func binPath(race, pre bool) string {
	dir := os.Getenv("RUXSIM_BIN_DIR")
	if dir == "" {
		dir = filepath.Join(verifDir(), "out", "bin")
	}
	if pre {
		return filepath.Join(dir, "ruxsim-pre")
	}
	if race {
		return filepath.Join(dir, "ruxsim-race")
	}
	return filepath.Join(dir, "ruxsim")
}

func raceLogPrefix() string {
	return filepath.Join(verifDir(), "out", "race", "r")
}

func childEnv(race bool) []string {
	env := os.Environ()
	if race {
		env = append(env, "GORACE=log_path="+raceLogPrefix()+" halt_on_error=0 history_size=3")
	}
	return env
}

// KnownFinding is one entry of /verif/known_findings.json.
type KnownFinding struct {
	Property string `json:"property"`
	Class    string `json:"class"`
	Sig      string `json:"sig"`
	Status   string `json:"status"` // known | fixed
	Commit   string `json:"commit,omitempty"`
	What     string `json:"what"`
}

func loadKnown() []KnownFinding {
	b, err := os.ReadFile(filepath.Join(verifDir(), "known_findings.json"))
	if err != nil {
		return nil
	}
	var doc struct {
		Findings []KnownFinding `json:"findings"`
	}
	if err := json.Unmarshal(b, &doc); err != nil {
		fatalf("known_findings.json: %v", err)
	}
	return doc.Findings
}

func matchKnown(k []KnownFinding, v Violation) *KnownFinding {
	for i := range k {
		f := &k[i]
		if f.Status == "known" && f.Property == v.Property && f.Class == v.Class && f.Sig == v.Sig {
			return f
		}
	}
	return nil
}

type foundViol struct {
	prof *Profile
	wv   WorkerViol
}

type profAgg struct {
	prof       *Profile
	runs       int
	steps      int64
	requests   int64
	nontrivial map[uint64]struct{}
	interleave map[uint64]struct{}
	states     map[uint64]struct{}
	probes     map[string]int64
	faults     map[string]int64
	samples    []*Scenario
	rejected   int
	wall       float64
	seeds      []uint64
}

func (a *profAgg) merge(b *profAgg) {
	a.runs += b.runs
	a.steps += b.steps
	a.requests += b.requests
	a.rejected += b.rejected
	for h := range b.nontrivial {
		a.nontrivial[h] = struct{}{}
	}
	for h := range b.interleave {
		a.interleave[h] = struct{}{}
	}
	for h := range b.states {
		a.states[h] = struct{}{}
	}
	for k, v := range b.probes {
		a.probes[k] += v
	}
	for k, v := range b.faults {
		a.faults[k] += v
	}
	if len(a.samples) == 0 {
		a.samples = b.samples
	}
}

func cmdCheck(args []string) int {
	fs := flag.NewFlagSet("check", flag.ExitOnError)
	prop := fs.String("prop", "", "")
	tier := fs.String("tier", "quick", "")
	seed := fs.Uint64("seed", envSeed(), "")
	workers := fs.Int("workers", 16, "")
	only := fs.String("profile", "", "run only this profile")
	scale := fs.Float64("scale", 1, "multiply run counts")
	fs.Parse(args)
	ps := profilesOf(*prop)
	if len(ps) == 0 {
		fmt.Fprintln(os.Stderr, "no profiles for property", *prop)
		return 2
	}
	start := time.Now()
	os.MkdirAll(filepath.Join(verifDir(), "out", "race"), 0o755)
	os.MkdirAll(filepath.Join(verifDir(), "out", "replays"), 0o755)
	os.MkdirAll(filepath.Join(verifDir(), "evidence"), 0o755)
	known := loadKnown()

	var aggs []*profAgg
	var found []foundViol
	for _, p := range ps {
		if *only != "" && p.Name != *only {
			continue
		}
		n := p.Quick
		if *tier == "thorough" {
			n = p.Thorough
		}
		n = int(float64(n) * *scale)
		if n <= 0 {
			continue
		}
		t0 := time.Now()
		// the thorough tier spreads its runs over three base seeds derived from VERIF_SEED
		seeds := []uint64{*seed}
		if *tier == "thorough" {
			seeds = []uint64{*seed, mix64(*seed ^ 0xa1), mix64(*seed ^ 0xb2)}
		}
		var agg *profAgg
		var fv []foundViol
		for _, sd := range seeds {
			a, f, err := runProfile(p, sd, n/len(seeds), *workers)
			if err != nil {
				fmt.Fprintln(os.Stderr, "ruxsim:", err)
				return 2
			}
			fv = append(fv, f...)
			if agg == nil {
				agg = a
			} else {
				agg.merge(a)
			}
			agg.seeds = append(agg.seeds, sd)
		}
		agg.wall = time.Since(t0).Seconds()
		if p.Pre && agg.runs >= 20 {
			var hits int64
			for k, v := range agg.probes {
				if strings.HasPrefix(k, "site:p.") {
					hits += v
				}
			}
			if hits == 0 {
				fmt.Fprintf(os.Stderr, "ruxsim: profile %s/%s reached no statement-level yield site: the -pre binary was not built against the instrumented copy\n", p.Prop, p.Name)
				return 2
			}
		}
		aggs = append(aggs, agg)
		found = append(found, fv...)
		fmt.Printf("profile %s/%s: %d runs, %d steps, %d distinct interleavings, %d violations reported, %.1fs\n",
			p.Prop, p.Name, agg.runs, agg.steps, len(agg.interleave), len(fv), agg.wall)
	}

	// classify: known findings vs new violations; one representative per (class, sig)
	type key struct{ class, sig string }
	seen := map[key]bool{}
	var fresh []foundViol
	knownHit := map[string]int{}
	for _, f := range found {
		if kf := matchKnown(known, f.wv.Viol); kf != nil {
			if knownHit[kf.Sig+kf.Class] == 0 {
				fmt.Printf("KNOWN-FINDING: property=%s class=%s %s\n", kf.Property, kf.Class, kf.What)
			}
			knownHit[kf.Sig+kf.Class]++
			continue
		}
		k := key{f.wv.Viol.Class, f.wv.Viol.Sig}
		if k.class == "data-race" {
			k.sig = "" // minimise one representative race per check
		}
		if seen[k] {
			continue
		}
		seen[k] = true
		fresh = append(fresh, f)
	}
	exit := 0
	nviol := 0
	unconfirmed := 0
	for i, f := range fresh {
		if i >= 4 {
			fmt.Printf("(further distinct violations not minimised: class=%s sig=%s)\n", f.wv.Viol.Class, f.wv.Viol.Sig)
			continue
		}
		path, v, ok := minimiseAndConfirm(f)
		if !ok {
			// found by a worker that had executed other runs before, but not by a fresh process executing
			// this scenario alone: the tree keeps state across requests of different routers (or the harness is
			// at fault). Never a verdict by itself; exit 2 unless another violation is confirmed.
			fmt.Fprintf(os.Stderr, "ruxsim: a violation of %s (class %s, run %d) did not reproduce in a fresh process\n%s\n", *prop, f.wv.Viol.Class, f.wv.Run, f.wv.Viol.Detail)
			unconfirmed++
			continue
		}
		nviol++
		exit = 1
		fmt.Printf("violation class=%s sig=%q\n%s\n", v.Class, v.Sig, v.Detail)
		fmt.Printf("VIOLATION property=%s replay=%s\n", *prop, path)
	}
	writeEvidence(*prop, *tier, *seed, aggs, nviol, knownHit, time.Since(start).Seconds())
	if exit == 0 && unconfirmed > 0 {
		fmt.Fprintln(os.Stderr, "ruxsim: no violation could be confirmed in a fresh process; treating the unconfirmed reports as infrastructure failure")
		return 2
	}
	return exit
}

// runProfile distributes runs 0..n-1 over worker processes: worker k executes the runs with index = k mod workers.
func runProfile(p *Profile, seed uint64, n, workers int) (*profAgg, []foundViol, error) {
	if workers > n {
		workers = n
	}
	agg := &profAgg{prof: p, nontrivial: map[uint64]struct{}{}, interleave: map[uint64]struct{}{}, states: map[uint64]struct{}{},
		probes: map[string]int64{}, faults: map[string]int64{}}
	var mu sync.Mutex
	var found []foundViol
	var firstErr error
	var wg sync.WaitGroup
	for k := 0; k < workers; k++ {
		wg.Add(1)
		go func(k int) {
			defer wg.Done()
			from := 0
			for from < n {
				stats, viols, code, err := runWorker(p, seed, from, n, workers, k)
				mu.Lock()
				if err != nil && firstErr == nil {
					firstErr = err
				}
				for _, v := range viols {
					found = append(found, foundViol{p, v})
				}
				if stats != nil {
					agg.runs += stats.Runs
					agg.steps += stats.Steps
					agg.requests += stats.Requests
					agg.rejected += stats.RegRejected
					for _, h := range stats.Nontrivial {
						agg.nontrivial[h] = struct{}{}
					}
					for _, h := range stats.Interleave {
						agg.interleave[h] = struct{}{}
					}
					for _, h := range stats.States {
						agg.states[h] = struct{}{}
					}
					for k, v := range stats.Probes {
						agg.probes[k] += v
					}
					for k, v := range stats.Faults {
						agg.faults[k] += v
					}
					if k == 0 && len(agg.samples) < 3 {
						agg.samples = append(agg.samples, stats.Samples...)
					}
				}
				nFound := len(found)
				mu.Unlock()
				if err != nil || code != 3 || stats == nil {
					return
				}
				if nFound > 200 {
					return // enough material; the tree is badly broken
				}
				from = stats.LastRun + 1 // the worker stopped after a fatal violation: continue behind it in a fresh process
			}
		}(k)
	}
	wg.Wait()
	return agg, found, firstErr
}

func runWorker(p *Profile, seed uint64, from, to, stride, offset int) (*WorkerStats, []WorkerViol, int, error) {
	samples := 0
	if offset == 0 && from == 0 {
		samples = 3
	}
	cmd := exec.Command(binPath(p.Race, p.Pre), "worker", "-prop", p.Prop, "-profile", p.Name,
		"-seed", fmt.Sprint(seed), "-from", fmt.Sprint(from), "-to", fmt.Sprint(to),
		"-stride", fmt.Sprint(stride), "-offset", fmt.Sprint(offset), "-samples", fmt.Sprint(samples))
	cmd.Env = childEnv(p.Race)
	var stderr bytes.Buffer
	cmd.Stderr = &stderr
	outPipe, err := cmd.StdoutPipe()
	if err != nil {
		return nil, nil, 0, err
	}
	if err := cmd.Start(); err != nil {
		return nil, nil, 0, err
	}
	var stats *WorkerStats
	var viols []WorkerViol
	rd := bufio.NewReaderSize(outPipe, 1<<20)
	for {
		line, err := rd.ReadBytes('\n')
		if len(line) > 0 {
			var probe struct {
				Type string `json:"type"`
			}
			if json.Unmarshal(line, &probe) == nil {
				switch probe.Type {
				case "viol":
					var v WorkerViol
					if json.Unmarshal(line, &v) == nil {
						viols = append(viols, v)
					}
				case "stats":
					var s WorkerStats
					if json.Unmarshal(line, &s) == nil {
						stats = &s
					}
				}
			}
		}
		if err != nil {
			break
		}
	}
	werr := cmd.Wait()
	code := 0
	if werr != nil {
		if ee, ok := werr.(*exec.ExitError); ok {
			code = ee.ExitCode()
		} else {
			return stats, viols, 0, werr
		}
	}
	if code != 0 && code != 3 {
		return stats, viols, code, fmt.Errorf("worker %s/%s offset %d exited with status %d: %s", p.Prop, p.Name, offset, code, strings.TrimSpace(stderr.String()))
	}
	if p.Race {
		// race logs of workers that finished cleanly are noise; remove
		os.Remove(fmt.Sprintf("%s.%d", raceLogPrefix(), cmd.Process.Pid))
	}
	return stats, viols, code, nil
}

// execInChild runs one scenario in a fresh process and returns its violations.
func execInChild(sc *Scenario) ([]Violation, error) {
	f, err := os.CreateTemp(filepath.Join(verifDir(), "out"), "cand-*.json")
	if err != nil {
		return nil, err
	}
	name := f.Name()
	f.Write(sc.JSON())
	f.Close()
	defer os.Remove(name)
	cmd := exec.Command(binPath(sc.Race, sc.Pre), "exec", "-file", name)
	cmd.Env = childEnv(sc.Race)
	var stderr bytes.Buffer
	cmd.Stderr = &stderr
	out, err := cmd.Output()
	if sc.Race && cmd.Process != nil {
		defer os.Remove(fmt.Sprintf("%s.%d", raceLogPrefix(), cmd.Process.Pid))
	}
	if err != nil {
		if ee, ok := err.(*exec.ExitError); !ok || (ee.ExitCode() != 1) {
			return nil, fmt.Errorf("exec child: %v: %s", err, strings.TrimSpace(stderr.String()))
		}
	}
	var eo ExecOut
	if err := json.Unmarshal(bytes.TrimSpace(out), &eo); err != nil {
		return nil, fmt.Errorf("exec child output: %v", err)
	}
	return eo.Viol, nil
}

// sameViolation finds the violation being minimised or replayed among vs. For
// data races the class alone decides: one racy execution usually contains
// several conflicting pairs, and which of them the detector reports first
// depends on its bounded per-word shadow state, not only on the schedule. A
// report is never invented, so any report is the reproduction.
func sameViolation(vs []Violation, class, sig string) *Violation {
	for i := range vs {
		if vs[i].Class == class && (vs[i].Sig == sig || class == "data-race") {
			return &vs[i]
		}
	}
	return nil
}

// minimiseAndConfirm shrinks the failing scenario, writes the replay file and
// re-executes it in a fresh process.
func minimiseAndConfirm(f foundViol) (string, Violation, bool) {
	v := f.wv.Viol
	sc := f.wv.Scenario
	if sc.Race && v.Class != "data-race" {
		// a functional violation found in a race profile: the plain binary reproduces it, much faster
		sc = sc.Clone()
		sc.Race = false
	}
	// The race detector keeps a bounded, randomly evicted history per memory word:
	// whether a given racy execution is *reported* is not a pure function of the
	// schedule. Reports are never invented, so a race scenario gets several attempts.
	attempts := 1
	if v.Class == "data-race" {
		attempts = 3
	}
	oracle := func(c *Scenario) bool {
		for i := 0; i < attempts; i++ {
			vs, err := execInChild(c)
			if err != nil {
				if os.Getenv("RUXSIM_DEBUG") != "" {
					fmt.Fprintln(os.Stderr, "ruxsim: candidate execution failed:", err)
				}
				return false
			}
			if sameViolation(vs, v.Class, v.Sig) != nil {
				return true
			}
		}
		return false
	}
	writeReplay := func(s *Scenario, got *Violation) string {
		s.Expect = &Expect{Class: got.Class, Sig: got.Sig, Detail: got.Detail}
		path := filepath.Join(verifDir(), "out", "replays", fmt.Sprintf("%s-%s-%d-%d.json", sc.Property, v.Class, sc.Seed, sc.Run))
		os.WriteFile(path, s.JSON(), 0o644)
		return path
	}
	if !oracle(sc) {
		if v.Class == "data-race" {
			// the worker's report (both stacks are in the detail) stands; the replay file is the scenario as found
			fmt.Fprintln(os.Stderr, "ruxsim: the race was reported by the worker but not again in", attempts, "fresh executions of the same scenario; reporting it unminimised")
			return writeReplay(sc.Clone(), &v), v, true
		}
		fmt.Fprintln(os.Stderr, "ruxsim: the scenario as found did not fail again in a fresh process")
		return "", v, false
	}
	budget := 600
	if sc.Race {
		budget = 240
	}
	if sc.Pre {
		budget = 300 // every candidate is 10-20 times as many hand-offs as a cooperative run
	}
	if sc.Pre && sc.PreRate > 0 && len(f.wv.Switches) > 0 {
		// the random walk as the explicit list of the switches it made: same execution, and the
		// shrinker can drop points one by one (kept only if the violation persists in that form)
		c := sc.Clone()
		c.Points, c.PreRate, c.PreSeed = f.wv.Switches, 0, 0
		if oracle(c) {
			sc = c
		}
	}
	small := Shrink(sc, oracle, budget)
	var got *Violation
	for i := 0; i < 2*attempts && got == nil; i++ {
		vs, err := execInChild(small)
		if err != nil {
			return "", v, false
		}
		got = sameViolation(vs, v.Class, v.Sig)
	}
	if got == nil {
		if v.Class == "data-race" {
			return writeReplay(sc.Clone(), &v), v, true
		}
		fmt.Fprintln(os.Stderr, "ruxsim: the minimised scenario did not fail again in a fresh process:", string(small.JSON()))
		return "", v, false
	}
	return writeReplay(small, got), *got, true
}

func cmdReplay(args []string) int {
	fs := flag.NewFlagSet("replay", flag.ExitOnError)
	file := fs.String("file", "", "")
	fs.Parse(args)
	sc, err := LoadScenario(*file)
	if err != nil {
		fmt.Fprintln(os.Stderr, err)
		return 2
	}
	vs, err := execInChild(sc)
	if err != nil {
		fmt.Fprintln(os.Stderr, err)
		return 2
	}
	for i := 0; i < 7 && sc.Expect != nil && sc.Expect.Class == "data-race" && sameViolation(vs, "data-race", "") == nil; i++ {
		if vs, err = execInChild(sc); err != nil { // the detector's report depends on its bounded shadow state: several attempts
			fmt.Fprintln(os.Stderr, err)
			return 2
		}
	}
	if sc.Expect != nil {
		if got := sameViolation(vs, sc.Expect.Class, sc.Expect.Sig); got != nil {
			fmt.Printf("reproduced: class=%s sig=%q\n%s\n", got.Class, got.Sig, got.Detail)
			fmt.Printf("VIOLATION property=%s replay=%s\n", sc.Property, *file)
			return 1
		}
	}
	if len(vs) > 0 {
		fmt.Printf("a different violation occurred: class=%s sig=%q\n%s\n", vs[0].Class, vs[0].Sig, vs[0].Detail)
		fmt.Printf("VIOLATION property=%s replay=%s\n", sc.Property, *file)
		return 1
	}
	fmt.Println("no violation on this tree")
	return 0
}

// ---- evidence ----

func seedList(aggs []*profAgg, seed uint64) []uint64 {
	for _, a := range aggs {
		if len(a.seeds) > 0 {
			return a.seeds
		}
	}
	return []uint64{seed}
}

func writeEvidence(prop, tier string, seed uint64, aggs []*profAgg, nviol int, knownHit map[string]int, wall float64) {
	type profEv struct {
		Profile       string           `json:"profile"`
		Race          bool             `json:"race_detector"`
		Pre           bool             `json:"statement_level_preemption"`
		FaultProfile  bool             `json:"fault_injecting"`
		Runs          int              `json:"runs"`
		Requests      int64            `json:"requests_or_operations"`
		Steps         int64            `json:"scheduler_steps"`
		Interleavings int              `json:"distinct_interleavings"`
		States        int              `json:"distinct_abstract_states"`
		Nontrivial    int              `json:"distinct_nontrivial"`
		RunsPerHour   float64          `json:"runs_per_hour"`
		Rule          string           `json:"nontrivial_rule"`
		FaultsFired   map[string]int64 `json:"faults_fired"`
		Probes        map[string]int64 `json:"probes"`
		RegRejected   int              `json:"programs_rejected_at_registration"`
		Wall          float64          `json:"wall_s"`
	}
	var pe []profEv
	evals, distinct, states := 0, 0, 0
	var steps int64
	var samples []any
	rules := []string{}
	faultTotal := map[string]int64{}
	for _, a := range aggs {
		e := profEv{Profile: a.prof.Name, Race: a.prof.Race, Pre: a.prof.Pre, FaultProfile: a.prof.Faulty, Runs: a.runs, Requests: a.requests, Steps: a.steps,
			Interleavings: len(a.interleave), States: len(a.states), Nontrivial: len(a.nontrivial), Rule: a.prof.Rule,
			FaultsFired: a.faults, Probes: a.probes, RegRejected: a.rejected, Wall: a.wall}
		if a.wall > 0 {
			e.RunsPerHour = float64(a.runs) / a.wall * 3600
		}
		pe = append(pe, e)
		evals += a.runs
		distinct += len(a.nontrivial)
		states += len(a.states)
		steps += a.steps
		for _, s := range a.samples {
			if len(samples) < 4 {
				samples = append(samples, s)
			}
		}
		rules = append(rules, a.prof.Name+": "+a.prof.Rule)
		for k, v := range a.faults {
			faultTotal[k] += v
		}
	}
	if len(samples) == 0 {
		for _, a := range aggs {
			samples = append(samples, makeScenario(a.prof, seed, 0))
			break
		}
	}
	sort.Strings(rules)
	kh := map[string]int{}
	for k, v := range knownHit {
		kh[k] = v
	}
	ev := map[string]any{
		"property_id": prop,
		"tier":        tier,
		"seed":        int64(seed & 0x7fffffffffffffff),
		"level":       "exploration",
		"wall_s":      wall,
		"violations":  nviol,
		"coverage": map[string]any{
			"evaluations":            evals,
			"distinct_nontrivial":    distinct,
			"rule":                   "every evaluation is one deterministic simulated run = G(profile, seed, run index); runs are counted distinct by the hash of (scenario without seed bookkeeping, executed interleaving); non-trivial per profile: " + strings.Join(rules, " || "),
			"samples":                samples,
			"states":                 states,
			"scheduler_steps_total":  steps,
			"simulated_time_note":    "the router core has no clock; simulated time is counted in scheduler steps",
			"runs_per_hour":          float64(evals) / wall * 3600,
			"seeds":                  seedList(aggs, seed),
			"faults_fired_total":     faultTotal,
			"profiles":               pe,
			"known_findings_matched": kh,
			"components_real":        []string{"package rux: router, matcher, dispatch, Context, handler-chain cursor, responseWriter wrapper, LRU route cache (in the profiles marked statement_level_preemption: the same sources, rebuilt from a scratch copy with a scheduler yield woven before every statement)", "container/list", "regexp", "sync.RWMutex", "net/http helpers called by rux (http.Error, NotFound, Redirect)"},
			"components_stubbed":     []string{"net/http server and its goroutines (simulated clients)", "underlying http.ResponseWriter (recording, fault-injecting SimWriter)", "user handlers (scripted harness handlers)", "sync.Pool choice (simulated free list behind the verif pool hook)", "map iteration order at Resource and findAllowedMethods (seeded permutation)"},
			"exhaustive":             false,
		},
		"assumptions": []string{
			"interleavings are explored at yield sites only (harness handler boundaries, writer calls, verif-tagged sites in rux); between two sites a task runs alone",
			"profiles marked statement_level_preemption run the real package rebuilt from a copy of /repo's working tree in which a yield precedes every statement (instr/): there a task can be preempted between any two statements of rux, not inside one statement or inside the standard library",
			"seeded sampling, not enumeration: a clean batch is evidence, not proof",
			"built with -tags verif from /repo's working tree; hooks are no-ops unless the simulator installs callbacks",
		},
	}
	b, _ := json.MarshalIndent(ev, "", " ")
	os.WriteFile(filepath.Join(verifDir(), "evidence", prop+".json"), b, 0o644)
}
