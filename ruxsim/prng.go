package main

// splitmix64: the only source of randomness in the simulator. Everything a run
// chooses is drawn, before execution starts, from one stream seeded with
// mix(VERIF_SEED, profile, runIndex). Execution, checking and logging draw nothing.
type Rng struct{ s uint64 }

func mix64(z uint64) uint64 {
	z += 0x9e3779b97f4a7c15
	z = (z ^ (z >> 30)) * 0xbf58476d1ce4e5b9
	z = (z ^ (z >> 27)) * 0x94d049bb133111eb
	return z ^ (z >> 31)
}

func NewRng(seed uint64, salt ...uint64) *Rng {
	s := mix64(seed)
	for _, x := range salt {
		s = mix64(s ^ mix64(x+0x1234567))
	}
	return &Rng{s}
}

func (r *Rng) U64() uint64 {
	r.s += 0x9e3779b97f4a7c15
	z := r.s
	z = (z ^ (z >> 30)) * 0xbf58476d1ce4e5b9
	z = (z ^ (z >> 27)) * 0x94d049bb133111eb
	return z ^ (z >> 31)
}

// Intn returns a value in [0,n). n<=0 yields 0.
func (r *Rng) Intn(n int) int {
	if n <= 1 {
		return 0
	}
	return int(r.U64() % uint64(n))
}

// Range returns a value in [lo,hi].
func (r *Rng) Range(lo, hi int) int {
	if hi <= lo {
		return lo
	}
	return lo + r.Intn(hi-lo+1)
}

// Chance is true with probability num/den.
func (r *Rng) Chance(num, den int) bool { return r.Intn(den) < num }

func (r *Rng) Pick(ss []string) string {
	if len(ss) == 0 {
		return ""
	}
	return ss[r.Intn(len(ss))]
}

func (r *Rng) Perm(n int) []int {
	p := make([]int, n)
	for i := range p {
		p[i] = i
	}
	for i := n - 1; i > 0; i-- {
		j := r.Intn(i + 1)
		p[i], p[j] = p[j], p[i]
	}
	return p
}

func hashStr(s string) uint64 {
	h := uint64(1469598103934665603)
	for i := 0; i < len(s); i++ {
		h ^= uint64(s[i])
		h *= 1099511628211
	}
	return h
}
