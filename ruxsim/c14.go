package main

import (
	"fmt"
	"strconv"
	"strings"
	"time"

	"github.com/anishathalye/porcupine"
	"github.com/gookit/rux"
)

// C14 — the route cache is a bounded LRU map and repeats are served from it.
//
// Component level: seeded Set/Get/Has/Delete/Len histories on a bare
// rux.NewCachedRoutes(n), n in 0..4 (sometimes 1000), keys from a pool of six,
// every stored value unique. Sequential histories are compared operation by
// operation, return values and recency order, with a list model; concurrent
// histories (2..4 simulated clients, yields before every lock acquisition) are
// checked for linearizability against the same model with porcupine, plus a
// final recency snapshot, and run under the race detector.
// Router level: after a request resolved to a dynamic route, the entry for
// exactly method+path is the most recent one and an immediate repeat is a hit.

// ---- the sequential specification ----

type lruEntry struct {
	k string
	v int
}

type lruModel struct {
	cap         int
	hasPromotes bool
	items       []lruEntry // most recent first
}

func (m *lruModel) find(k string) int {
	for i, e := range m.items {
		if e.k == k {
			return i
		}
	}
	return -1
}

func (m *lruModel) promote(i int) {
	e := m.items[i]
	copy(m.items[1:i+1], m.items[:i])
	m.items[0] = e
}

// apply performs op and returns the expected result string.
func (m *lruModel) apply(op COp) string {
	switch op.Op {
	case "set":
		if i := m.find(op.Key); i >= 0 {
			m.promote(i)
			m.items[0].v = op.Val
			return "true"
		}
		m.items = append([]lruEntry{{op.Key, op.Val}}, m.items...)
		if len(m.items) > m.cap {
			m.items = m.items[:len(m.items)-1]
		}
		return "true"
	case "get":
		if i := m.find(op.Key); i >= 0 {
			m.promote(i)
			return "v" + strconv.Itoa(m.items[0].v) + ",true"
		}
		return "nil,false"
	case "has":
		i := m.find(op.Key)
		if i >= 0 && m.hasPromotes {
			m.promote(i)
		}
		return strconv.FormatBool(i >= 0)
	case "delete":
		if i := m.find(op.Key); i >= 0 {
			m.items = append(m.items[:i:i], m.items[i+1:]...)
			return "true"
		}
		return "false"
	case "len":
		return strconv.Itoa(len(m.items))
	case "snap":
		return m.keys()
	}
	return "?"
}

func (m *lruModel) keys() string {
	ks := make([]string, len(m.items))
	for i, e := range m.items {
		ks[i] = e.k
	}
	return strings.Join(ks, ",")
}

func (m *lruModel) encode() string {
	var b strings.Builder
	for _, e := range m.items {
		b.WriteString(e.k)
		b.WriteByte('=')
		b.WriteString(strconv.Itoa(e.v))
		b.WriteByte(';')
	}
	return b.String()
}

func decodeLRU(cap int, hasPromotes bool, s string) *lruModel {
	m := &lruModel{cap: cap, hasPromotes: hasPromotes}
	for _, p := range strings.Split(s, ";") {
		if p == "" {
			continue
		}
		kv := strings.SplitN(p, "=", 2)
		v, _ := strconv.Atoi(kv[1])
		m.items = append(m.items, lruEntry{kv[0], v})
	}
	return m
}

func porcupineModel(cap int, hasPromotes bool) porcupine.Model {
	return porcupine.Model{
		Init: func() interface{} { return "" },
		Step: func(state, input, output interface{}) (bool, interface{}) {
			m := decodeLRU(cap, hasPromotes, state.(string))
			want := m.apply(input.(COp))
			return want == output.(string), m.encode()
		},
		DescribeOperation: func(input, output interface{}) string {
			op := input.(COp)
			return fmt.Sprintf("%s(%s,%d)->%s", op.Op, op.Key, op.Val, output)
		},
	}
}

// ---- executing cache operations ----

type copRec struct {
	Client  int
	Op      COp
	Out     string
	Invoke  int64
	Return  int64
	Keys    string // recency order right after the op (sequential runs only)
	Indexed int
}

var c14Handler = func(c *rux.Context) {}

func doCacheOp(cr interface {
	Len() int
	Set(string, *rux.Route) bool
	Get(string) (*rux.Route, bool)
	Has(string) bool
	Delete(string) bool
}, op COp, routes map[int]*rux.Route) string {
	switch op.Op {
	case "set":
		cr.Set(op.Key, routes[op.Val])
		return "true" // what Set returns is not part of the statement
	case "get":
		r, ok := cr.Get(op.Key)
		if r == nil {
			return "nil," + strconv.FormatBool(ok)
		}
		return strings.TrimPrefix(r.Path(), "/") + "," + strconv.FormatBool(ok)
	case "has":
		return strconv.FormatBool(cr.Has(op.Key))
	case "delete":
		return strconv.FormatBool(cr.Delete(op.Key))
	case "len":
		return strconv.Itoa(cr.Len())
	}
	return "?"
}

type cacheRun struct {
	Recs      [][]copRec
	Final     string
	Steps     []StepRec
	Hash      uint64
	Overrun   bool
	Abandoned bool
	States    []uint64
	Between   []string
}

func runCacheOps(sc *Scenario) *cacheRun {
	cr := rux.NewCachedRoutes(sc.CacheCap)
	routes := map[int]*rux.Route{}
	for _, cl := range sc.Clients {
		for _, op := range cl.Ops {
			if op.Op == "set" {
				routes[op.Val] = rux.NewRoute("/v"+strconv.Itoa(op.Val), c14Handler)
			}
		}
	}
	out := &cacheRun{Recs: make([][]copRec, len(sc.Clients))}
	shResetSeq()
	sequential := len(sc.Clients) == 1
	bodies := make([]func(), len(sc.Clients))
	total := 0
	for t := range sc.Clients {
		t := t
		ops := sc.Clients[t].Ops
		total += len(ops)
		out.Recs[t] = make([]copRec, 0, len(ops))
		bodies[t] = func() {
			for _, op := range ops {
				taskYield(siteCop)
				rec := copRec{Client: t, Op: op, Invoke: shNextSeq()}
				rec.Out = doCacheOp(cr, op, routes)
				rec.Return = shNextSeq()
				if sequential {
					ks, idx := cr.VerifKeys()
					rec.Keys, rec.Indexed = strings.Join(ks, ","), idx
				}
				out.Recs[t] = append(out.Recs[t], rec)
				taskYield(siteCop)
			}
		}
	}
	s := newSched(sc, 40*total+100)
	s.Between = func(step int) {
		if sc.Pre && !cr.VerifLockFree() {
			return // a task is parked inside the critical section: not a state any caller can observe, nor safe to walk
		}
		ks, idx := cr.VerifKeys()
		h := uint64(1469598103934665603)
		for _, k := range ks {
			h = (h ^ hashStr(k)) * 1099511628211
		}
		out.States = append(out.States, h)
		if len(ks) > sc.CacheCap {
			out.Between = append(out.Between, fmt.Sprintf("cache holds %d entries with capacity %d (step %d)", len(ks), sc.CacheCap, step))
		}
		if idx != len(ks) {
			out.Between = append(out.Between, fmt.Sprintf("index map has %d keys, recency list %d (step %d)", idx, len(ks), step))
		}
	}
	ok := s.Run(sc.Sites, bodies)
	out.Steps, out.Hash, out.Overrun = s.Steps, s.ScheduleHash(), !ok
	out.Abandoned = s.Abandoned(sc)
	ks, _ := cr.VerifKeys()
	out.Final = strings.Join(ks, ",")
	return out
}

var c14Keys = []string{"GET/a/1", "GET/a/2", "GET/b/1", "POST/a/1", "GET/c", "HEAD/a/1"}

func genC14Ops(concurrent bool) func(rng *Rng, sc *Scenario) {
	return func(rng *Rng, sc *Scenario) {
		sc.CacheCap = rng.Pick2(rng.Intn(5), rng.Pick2(rng.Intn(3), 1000))
		if rng.Chance(9, 10) && sc.CacheCap == 1000 {
			sc.CacheCap = rng.Intn(5)
		}
		nKeys := rng.Range(2, len(c14Keys))
		nClients := 1
		per := rng.Range(10, 80)
		if rng.Chance(1, 2) {
			per = rng.Range(3, 12)
		}
		if concurrent {
			nClients = rng.Range(2, 4)
			per = rng.Range(2, 6)
		}
		val := 0
		for t := 0; t < nClients; t++ {
			var cl Client
			for i := 0; i < per; i++ {
				op := COp{Key: c14Keys[rng.Intn(nKeys)]}
				switch rng.Intn(10) {
				case 0, 1, 2, 3:
					val++
					op.Op, op.Val = "set", val
				case 4, 5, 6:
					op.Op = "get"
				case 7:
					op.Op = "has"
				case 8:
					op.Op = "delete"
				default:
					op.Op, op.Key = "len", ""
				}
				cl.Ops = append(cl.Ops, op)
			}
			sc.Clients = append(sc.Clients, cl)
		}
		sc.Sites = []string{"cop", "lock"} // "lock": before every acquisition of the cache's lock, wherever it is in the code
		for _, s := range []string{"cache.lock.len", "cache.lock.set", "cache.lock.get", "cache.lock.delete"} {
			if rng.Chance(2, 3) {
				sc.Sites = append(sc.Sites, s)
			}
		}
		if concurrent {
			sc.Schedule, _ = GenSchedule(rng, nClients, 8*per*nClients)
		}
	}
}

func checkC14Ops(sc *Scenario) *CheckOut {
	out := &CheckOut{Faults: map[string]int64{}}
	run := runCacheOps(sc)
	out.Res = &RunResult{W: &World{}, Steps: run.Steps, SchedHash: run.Hash, Overrun: run.Overrun, States: run.States}
	fail := func(class, format string, a ...any) {
		out.Viol = append(out.Viol, Violation{"C14", class, fmt.Sprintf("capacity %d: ", sc.CacheCap) + fmt.Sprintf(format, a...), ""})
	}
	if run.Abandoned {
		out.Faults["pre-run-abandoned"]++
		return out
	}
	if run.Overrun {
		fail("no-progress", "run exceeded its step bound")
		return out
	}
	for _, r := range run.Recs {
		out.Requests += len(r)
	}
	if len(run.Between) > 0 {
		fail("capacity", "%s", run.Between[0])
		return out
	}
	if len(sc.Clients) == 1 {
		// sequential: operation by operation against both readings of "Has"
		models := []*lruModel{{cap: sc.CacheCap, hasPromotes: true}, {cap: sc.CacheCap, hasPromotes: false}}
		alive := []bool{true, true}
		var firstMsg [2]string
		var firstClass [2]string
		evictions := 0
		for i, rec := range run.Recs[0] {
			for mi, m := range models {
				if !alive[mi] {
					continue
				}
				before := len(m.items)
				want := m.apply(rec.Op)
				if rec.Op.Op == "set" && before == len(m.items) && before == m.cap && want == "true" {
					evictions++
				}
				class := ""
				switch {
				case want != rec.Out:
					class = map[string]string{"set": "replace", "get": "recency", "has": "recency", "delete": "delete", "len": "capacity"}[rec.Op.Op]
					if rec.Op.Op == "get" && strings.HasSuffix(want, "false") != strings.HasSuffix(rec.Out, "false") {
						class = "eviction"
					}
					firstMsg[mi] = fmt.Sprintf("op %d %s(%s,%d) returned %s, an LRU map returns %s", i, rec.Op.Op, rec.Op.Key, rec.Op.Val, rec.Out, want)
				case m.keys() != rec.Keys:
					class = "recency"
					if len(strings.Split(rec.Keys, ",")) != len(m.items) && !(rec.Keys == "" && len(m.items) == 0) {
						class = "eviction"
						if rec.Op.Op == "delete" {
							class = "delete"
						}
					}
					firstMsg[mi] = fmt.Sprintf("after op %d %s(%s,%d) the keys from most to least recent are [%s], an LRU map has [%s]", i, rec.Op.Op, rec.Op.Key, rec.Op.Val, rec.Keys, m.keys())
				case rec.Indexed != len(m.items):
					class = "capacity"
					firstMsg[mi] = fmt.Sprintf("after op %d the index holds %d keys, the list %d", i, rec.Indexed, len(m.items))
				}
				if class != "" {
					alive[mi] = false
					firstClass[mi] = class
				}
			}
			if !alive[0] && !alive[1] {
				break
			}
		}
		if !alive[0] && !alive[1] {
			fail(firstClass[1], "%s\n  history: %s", firstMsg[1], opsString(run.Recs[0]))
		}
		out.Faults["lru-eviction"] = int64(evictions) / 2
		out.Nontrivial = out.Requests >= 3
		return out
	}
	// concurrent: linearizability (either reading of Has) including a final recency snapshot
	var ops []porcupine.Operation
	var maxRet int64
	for _, rs := range run.Recs {
		for _, r := range rs {
			out := r.Out
			ops = append(ops, porcupine.Operation{ClientId: r.Client, Input: r.Op, Output: out, Call: r.Invoke, Return: r.Return})
			if r.Return > maxRet {
				maxRet = r.Return
			}
		}
	}
	ops = append(ops, porcupine.Operation{ClientId: len(sc.Clients), Input: COp{Op: "snap"}, Output: run.Final, Call: maxRet + 1, Return: maxRet + 2})
	r1 := porcupine.CheckOperationsTimeout(porcupineModel(sc.CacheCap, true), ops, 20*time.Second)
	if r1 != porcupine.Ok {
		r2 := porcupine.CheckOperationsTimeout(porcupineModel(sc.CacheCap, false), ops, 20*time.Second)
		switch {
		case r1 == porcupine.Illegal && r2 == porcupine.Illegal:
			var b strings.Builder
			for _, rs := range run.Recs {
				for _, r := range rs {
					fmt.Fprintf(&b, "\n  client %d [%d,%d] %s(%s,%d) -> %s", r.Client, r.Invoke, r.Return, r.Op.Op, r.Op.Key, r.Op.Val, r.Out)
				}
			}
			fail("not-linearizable", "no sequential order of the recorded operations consistent with their invocation/return order is a run of an LRU map; final recency order [%s]%s", run.Final, b.String())
		case r2 != porcupine.Ok:
			out.Faults["linearizability-inconclusive"]++
		}
	}
	overlap := false
	for i := range ops {
		for j := range ops {
			if i != j && ops[i].ClientId != ops[j].ClientId && ops[i].Call < ops[j].Return && ops[j].Call < ops[i].Return {
				overlap = true
			}
		}
	}
	out.Nontrivial = overlap
	return out
}

func opsString(rs []copRec) string {
	var b strings.Builder
	for _, r := range rs {
		fmt.Fprintf(&b, "%s(%s,%d)->%s ", r.Op.Op, r.Op.Key, r.Op.Val, r.Out)
	}
	return b.String()
}

// ---- router level ----

func genC14Router(rng *Rng, sc *Scenario) {
	g := NewGen(rng, sc)
	g.GenShape(ShapeCfg{
		MaxRoutes: 6, MaxGlobals: 1, GroupChance: [2]int{1, 4},
		CacheChance: [2]int{1, 1}, Caps: []int{1, 1, 2, 3, 4, 1000},
		FallbackOpts: true, NoRootGroups: true,
	})
	sc.Options.StrictSlash = false
	sc.Options.EncodedPath = false // (the key is then built from the escaped path: normalisation is C11's business)
	sc.Options.Intercept = ""      // (every request is then resolved, and cached, as another path)
	n := rng.Range(4, 24)
	var cl Client
	var prev []Req
	for i := 0; i < n; i++ {
		rq := g.GenRequest(prev)
		rq.Path = strings.TrimRight(rq.Path, "/")
		if rq.Path == "" {
			rq.Path = "/"
		}
		prev = append(prev, rq)
		cl.Reqs = append(cl.Reqs, rq)
		if rng.Chance(1, 2) {
			cl.Reqs = append(cl.Reqs, rq) // immediate repeat
		}
	}
	sc.Clients = []Client{cl}
	sc.OrderSeed = rng.U64() | 1
	sc.Pool = GenPool(rng)
	sc.Sites = GenSites(rng)
}

// genC14RouterConc: several clients, a cache large enough that nothing is
// evicted; every request is repeated at once by the same client.
func genC14RouterConc(rng *Rng, sc *Scenario) {
	g := NewGen(rng, sc)
	g.GenShape(ShapeCfg{
		MaxRoutes: 5, MaxGlobals: 1, GroupChance: [2]int{1, 4},
		CacheChance: [2]int{1, 1}, Caps: []int{1000},
		FallbackOpts: true, NoRootGroups: true,
	})
	sc.Options.StrictSlash = false
	sc.Options.EncodedPath = false
	sc.Options.Intercept = ""
	sc.Options.Capacity = 1000 // nothing may be evicted here: "present after the request" must hold with other requests in flight
	n := rng.Range(2, 3)
	total := 0
	var prev []Req
	for t := 0; t < n; t++ {
		var cl Client
		for i, k := 0, rng.Range(1, 4); i < k; i++ {
			rq := g.GenRequest(prev)
			rq.Path = strings.TrimRight(rq.Path, "/")
			if rq.Path == "" {
				rq.Path = "/"
			}
			prev = append(prev, rq)
			cl.Reqs = append(cl.Reqs, rq, rq)
			total += 2
		}
		sc.Clients = append(sc.Clients, cl)
	}
	sc.OrderSeed = rng.U64() | 1
	sc.Pool = GenPool(rng)
	sc.Sites = append(GenSites(rng), "cache.store", "lock")
	sc.Schedule, _ = GenSchedule(rng, n, 30*total)
}

// genC14RouterConcTail: the concurrent router worlds, half of them with a cache that does evict
// (capacity 1 or 2) and a tail of repeated requests on client 0. Requests that start after every
// other client has finished are judged by the sequential rules (most recent key, immediate repeat
// served from the cache): what a concurrent phase leaves behind must not outlive it.
//
// Half of the runs enable the statement sites of one or two files only (the cache, the matcher and
// dispatch weighted up): with a tenth of the steps, a window of two adjacent statements is hit
// correspondingly more often.
func genC14RouterConcTail(rng *Rng, sc *Scenario) {
	preempt(genC14RouterConc)(rng, sc)
	r := NewRng(sc.Seed, uint64(sc.Run), 0x7461696c)
	if r.Chance(1, 2) {
		var sites []string
		for _, s := range sc.Sites {
			if !strings.HasPrefix(s, "p.") {
				sites = append(sites, s)
			}
		}
		hot := []string{"p.route_cache", "p.route_cache", "p.route_cache", "p.parse_match", "p.parse_match", "p.parse_match", "p.dispatch", "p.dispatch", "p.context", "p.router", "p.route"}
		sites = append(sites, hot[r.Intn(len(hot))])
		if r.Chance(1, 3) {
			sites = append(sites, hot[r.Intn(len(hot))])
		}
		sc.Sites = sites
	}
	if r.Chance(1, 2) {
		sc.Options.Capacity = []int{1, 1, 1, 2}[r.Intn(4)]
	}
	var all []Req
	for _, cl := range sc.Clients {
		for i := 0; i < len(cl.Reqs); i += 2 {
			all = append(all, cl.Reqs[i])
		}
	}
	for i, k := 0, r.Range(2, 4); i < k && len(all) > 0; i++ {
		rq := all[r.Intn(len(all))]
		sc.Clients[0].Reqs = append(sc.Clients[0].Reqs, rq, rq)
	}
}

func checkC14Router(sc *Scenario) *CheckOut {
	out := &CheckOut{Faults: map[string]int64{}}
	res := RunConcurrent(sc)
	out.Res = res
	if res.W.regPanic != "" {
		return out
	}
	if res.Abandoned {
		out.Faults["pre-run-abandoned"]++
		return out
	}
	if res.Overrun {
		out.Viol = append(out.Viol, Violation{"C14", "no-progress", "run exceeded its step bound", ""})
		return out
	}
	if len(res.Between) > 0 {
		out.Viol = append(out.Viol, Violation{"C14", "capacity", res.Between[0], ""})
		return out
	}
	nocache := BuildWorld(sc, BuildOpt{NoCache: true})
	fail := func(rec *ReqRec, class, format string, a ...any) {
		out.Viol = append(out.Viol, Violation{"C14", class, fmt.Sprintf("client %d request %d (%s %s), cache capacity %d: ", rec.Task, rec.Idx, rec.Method, rec.Path, sc.Options.Capacity) + fmt.Sprintf(format, a...), ""})
	}
	concurrent := len(res.Recs) > 1
	endOf := make([]int64, len(res.Recs)) // when each client's last request returned
	for t, recs := range res.Recs {
		for _, rec := range recs {
			if rec.EndSeq > endOf[t] {
				endOf[t] = rec.EndSeq
			}
		}
	}
	for t, recs := range res.Recs {
		out.Requests += len(recs)
		var othersEnd int64
		for u, e := range endOf {
			if u != t && e > othersEnd {
				othersEnd = e
			}
		}
		c14RouterClient(sc, recs, nocache, concurrent, othersEnd, out, fail)
		if len(out.Viol) > 0 {
			break
		}
	}
	return out
}

func c14RouterClient(sc *Scenario, recs []*ReqRec, nocache *World, concurrent bool, othersEnd int64, out *CheckOut, fail func(*ReqRec, string, string, ...any)) {
	evicts := sc.Options.Capacity < 1000 // (the concurrent generators use 1000 for "never evicts")
	for i, rec := range recs {
		// a request that started after every other client had finished is alone: the sequential rules apply
		concurrent := concurrent && rec.StartSeq < othersEnd
		route, _, _ := nocache.R.QuickMatch(rec.Method, nocache.EffPath(rec.Path))
		if route == nil || !strings.ContainsAny(route.Path(), "{[") {
			continue
		}
		out.Nontrivial = true
		keys := strings.Split(rec.CacheKeys, "\x00")
		want := rec.Method + rec.Path
		alt := want
		if rec.Method == "HEAD" {
			alt = "GET" + rec.Path // a HEAD request may be resolved through its GET fallback
		}
		present := false
		for _, k := range keys {
			present = present || k == want || k == alt
		}
		// with other requests in flight (and a cache that never evicts) the entry must be present, though not necessarily most recent
		if (concurrent && !evicts && !present) || (!concurrent && (rec.CacheKeys == "" || (keys[0] != want && keys[0] != alt))) {
			fail(rec, "router-key", "resolved to the dynamic route %s, but afterwards the most recent cache key is not %q; keys from most to least recent: [%s]", route.Path(), want, strings.ReplaceAll(rec.CacheKeys, "\x00", " | "))
			break
		}
		if concurrent && evicts {
			continue // another client may evict the entry between the request and its repeat
		}
		if i+1 < len(recs) && recs[i+1].Method == rec.Method && recs[i+1].Path == rec.Path {
			nx := recs[i+1]
			out.Faults["immediate-repeat"]++
			if nx.Hits == 0 || nx.Stores > 0 {
				fail(nx, "repeat-missed", "immediate repeat of a request resolved to the dynamic route %s was not answered from the cache (cache hits during the repeat: %d, stores: %d)", route.Path(), nx.Hits, nx.Stores)
				break
			}
		}
	}
}

// ---- capacity boundaries ----
//
// The capacity option is a uint16: fill caches of 255, 256 and 65535 entries
// past their capacity with distinct keys. No model of the whole history is
// needed: the bound, the survivor set and the victim order are checked directly.
func genC14Huge(rng *Rng, sc *Scenario) {
	sc.CacheCap = []int{255, 256, 1000, 65535, 65535}[rng.Intn(5)]
	extra := rng.Range(1, 600)
	if rng.Chance(1, 4) {
		extra = []int{65535, 65536, 65537, 70001}[rng.Intn(4)] // as many evictions as a 16-bit counter holds
	}
	sc.Clients = []Client{{Ops: []COp{{Op: "fill", Val: extra}}}} // Val: how many keys beyond the capacity
}

func checkC14Huge(sc *Scenario) *CheckOut {
	out := &CheckOut{Faults: map[string]int64{}, Nontrivial: true, Res: &RunResult{W: &World{}}}
	cr := rux.NewCachedRoutes(sc.CacheCap)
	extra := sc.Clients[0].Ops[0].Val
	total := sc.CacheCap + extra
	rt := rux.NewRoute("/v", c14Handler)
	fail := func(format string, a ...any) {
		if len(out.Viol) == 0 {
			out.Viol = append(out.Viol, Violation{"C14", "capacity", fmt.Sprintf("capacity %d, %d distinct keys stored: ", sc.CacheCap, total) + fmt.Sprintf(format, a...), ""})
		}
	}
	for i := 0; i < total; i++ {
		cr.Set("GET/k/"+strconv.Itoa(i), rt)
		if i%4096 == 0 || i >= total-3 {
			if n := cr.Len(); n > sc.CacheCap {
				fail("after %d stores the cache holds %d entries", i+1, n)
				break
			}
		}
	}
	out.Requests = total
	if n := cr.Len(); n != sc.CacheCap {
		fail("the cache holds %d entries at the end", n)
	}
	keys, idx := cr.VerifKeys()
	if idx != len(keys) {
		fail("the index holds %d keys, the recency list %d", idx, len(keys))
	}
	if len(keys) > 0 && (keys[0] != "GET/k/"+strconv.Itoa(total-1) || keys[len(keys)-1] != "GET/k/"+strconv.Itoa(extra)) {
		fail("most / least recent keys are %s / %s, an LRU map holds GET/k/%d / GET/k/%d", keys[0], keys[len(keys)-1], total-1, extra)
	}
	if cr.Has("GET/k/"+strconv.Itoa(extra-1)) || !cr.Has("GET/k/"+strconv.Itoa(extra)) {
		fail("the oldest surviving key must be GET/k/%d", extra)
	}
	out.Faults["lru-eviction"] = int64(extra)
	return out
}

func init() {
	register(&Profile{Prop: "C14", Name: "lru-capacity-boundaries", Quick: 48, Thorough: 2000, Gen: genC14Huge, Check: checkC14Huge,
		Rule: "every run fills a cache of 255, 256, 1000 or 65535 entries beyond its capacity with distinct keys"})
	register(&Profile{Prop: "C14", Name: "router-concurrent", Quick: 9000, Thorough: 200000, Gen: genC14RouterConc, Check: checkC14Router,
		Rule: "a history is non-trivial when at least one request resolved to a dynamic route on the caching router"})
	register(&Profile{Prop: "C14", Name: "lru-sequential", Quick: 60000, Thorough: 1500000, Gen: genC14Ops(false), Check: checkC14Ops,
		Rule: "a history is non-trivial when it has at least three operations"})
	register(&Profile{Prop: "C14", Name: "lru-concurrent", Quick: 18000, Thorough: 300000, Gen: genC14Ops(true), Check: checkC14Ops,
		Rule: "a concurrent history is non-trivial when operations of different clients overlap in invocation/return order"})
	register(&Profile{Prop: "C14", Name: "lru-concurrent-race", Race: true, Quick: 1200, Thorough: 30000, Gen: genC14Ops(true), Check: checkC14Ops,
		Rule: "as lru-concurrent, executed under the race detector"})
	register(&Profile{Prop: "C14", Name: "lru-concurrent-pre", Pre: true, Quick: 30000, Thorough: 120000, Gen: preempt(genC14Ops(true)), Check: checkC14Ops,
		Rule: "as lru-concurrent; a task can be preempted before every statement of the cache (instrumented copy of rux)"})
	register(&Profile{Prop: "C14", Name: "router-concurrent-pre", Pre: true, Quick: 8000, Thorough: 40000, Gen: genC14RouterConcTail, Check: checkC14Router,
		Rule: "as router-concurrent; a task can be preempted before every statement of rux (instrumented copy)"})
	register(&Profile{Prop: "C14", Name: "router", Quick: 24000, Thorough: 400000, Gen: genC14Router, Check: checkC14Router,
		Rule: "a history is non-trivial when at least one request resolved to a dynamic route on the caching router"})
}
