package main

// Reach probes and fault counters: incremented from tasks and from the
// scheduler, so they live in a fixed array touched only by //go:norace code.

const (
	prSiteBase = 0 // one per yield site: how often the site was reached by a scheduled task
	prOrderPermuted = maxSites + iota
	prCacheHit
	prCacheHitWhileOtherMidChain
	prCacheStore
	prEvictionObserved
	prTwoInDispatch
	prCtxReuse
	prCtxReuseAfterPanic
	prCtxReuseAfterAbort
	prLongChain
	prCacheFaultApplied
	prCacheFaultNoop
	prPreemptions
	prPanicWhileOthersParked
	prAbortWhileOthersParked
	prWriterFaultFired
	prEnd
)

var probeNames = map[int]string{
	prOrderPermuted:              "order-permuted",
	prCacheHit:                   "cache-hit",
	prCacheHitWhileOtherMidChain: "cache-hit-while-another-request-mid-chain",
	prCacheStore:                 "cache-store",
	prEvictionObserved:           "cache-eviction",
	prTwoInDispatch:              "two-tasks-between-chain-assembly-and-first-handler",
	prCtxReuse:                   "context-reused",
	prCtxReuseAfterPanic:         "context-reused-after-panic",
	prCtxReuseAfterAbort:         "context-reused-after-abort",
	prLongChain:                  "chain-33-or-longer",
	prCacheFaultApplied:          "cache-loss-fault-removed-an-entry",
	prCacheFaultNoop:             "cache-loss-fault-found-nothing",
	prPreemptions:                "preemptions",
	prPanicWhileOthersParked:     "panic-while-others-parked-mid-chain",
	prAbortWhileOthersParked:     "abort-while-others-parked-mid-chain",
	prWriterFaultFired:           "writer-fault-fired",
}

var probes [prEnd]int64

//go:norace
func probeAdd(i int, n int64) { probes[i] += n }

//go:norace
func probeSite(i int) { probes[prSiteBase+i]++ }

//go:norace
func probeGet(i int) int64 { return probes[i] }

//go:norace
func probeSnapshot() [prEnd]int64 { return probes }

//go:norace
func probeReset() {
	for i := range probes {
		probes[i] = 0
	}
}

func probeMap(p [prEnd]int64) map[string]int64 {
	out := map[string]int64{}
	for i, s := range siteNames {
		out["site:"+s] = p[prSiteBase+i]
	}
	for i, n := range probeNames {
		out[n] = p[i]
	}
	return out
}
