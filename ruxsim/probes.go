package main

// Reach probes and fault counters: incremented from tasks and from the
// scheduler, so they live in a fixed array touched only by //go:norace code.

const (
	prSiteBase      = 0 // one per yield site: how often the site was reached
	prOrderPermuted = maxSites + iota
	prTwoInDispatch
	prCacheHitWhileOtherMidChain
	prEvictionObserved
	prEnd
)

var probeNames = map[int]string{
	prOrderPermuted:              "allowed-methods-order-permuted",
	prTwoInDispatch:              "two-requests-parked-between-chain-assembly-and-their-first-handler",
	prCacheHitWhileOtherMidChain: "cache-hit-while-another-request-is-parked-inside-its-handler-chain",
	prEvictionObserved:           "cache-entry-evicted-by-capacity",
}

var probes [prEnd]int64

// per-task cache counters (index maxTasks: outside the scheduler)
var taskCache [maxTasks + 1][2]int64

//go:norace
func taskCacheAdd(site int) {
	t := maxTasks
	if sh.active && sh.cur >= 0 {
		t = sh.cur
	}
	switch site {
	case siteCacheHit:
		taskCache[t][0]++
	case siteCacheStore:
		taskCache[t][1]++
	}
}

//go:norace
func taskCacheGet() (hits, stores int64) {
	t := maxTasks
	if sh.active && sh.cur >= 0 {
		t = sh.cur
	}
	return taskCache[t][0], taskCache[t][1]
}

//go:norace
func probeAdd(i int, n int64) { probes[i] += n }

//go:norace
func probeSite(i int) { probes[prSiteBase+i]++ }

//go:norace
func probeGet(i int) int64 { return probes[i] }

//go:norace
func probeSnapshot() [prEnd]int64 { return probes }

//go:norace
func probeReset() {
	for i := range probes {
		probes[i] = 0
	}
}

func probeMap(p [prEnd]int64) map[string]int64 {
	out := map[string]int64{}
	for i, s := range siteNames {
		out["site:"+s] = p[prSiteBase+i]
	}
	for i, n := range probeNames {
		out[n] = p[i]
	}
	return out
}
