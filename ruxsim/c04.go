package main

import (
	"fmt"
	"sort"
	"strings"
)

// C04 — middleware runs in global -> group -> route -> handler onion order.
//
// Absolute oracle: a small model of the registration program (World.register
// keeps it while it registers) gives, for the route a request reaches, the
// expected handler list; a one-cursor interpreter of the handler scripts gives
// the expected enter/leave sequence. Which route a request reaches is taken
// from the router itself (Match on a non-caching twin), so a routing defect can
// never surface here.

func c04Scripts(long bool) func(g *Gen, id string, kind byte) []Action {
	return func(g *Gen, id string, kind byte) []Action {
		rng := g.rng
		switch kind {
		case 'h':
			if rng.Chance(1, 6) {
				return []Action{{Op: "write", S: id + ";"}, {Op: "next"}} // a main handler that calls Next: nothing is left to run
			}
			return []Action{{Op: "write", S: id + ";"}}
		case 'n':
			switch rng.Intn(3) {
			case 0:
				return []Action{{Op: "write", S: id + ";"}, {Op: "next"}}
			}
			return []Action{{Op: "write", S: id + ";"}}
		}
		if long {
			// long chains: one behaviour for (almost) all middleware of the world, chosen once per world
			mode := g.sc.Seed ^ uint64(g.sc.Run)*0x9e3779b97f4a7c15
			switch {
			case rng.Chance(1, 20):
			case mix64(mode)%3 == 0:
				return []Action{{Op: "next"}, {Op: "next"}} // every middleware calls Next twice
			default:
				return []Action{{Op: "next"}}
			}
		}
		switch rng.Intn(9) {
		case 8:
			return []Action{{Op: rng.Pick([]string{"cancelreq", "introspect"})}, {Op: "next"}}
		case 0:
			return []Action{{Op: "obs"}} // returns without calling Next
		case 1:
			return []Action{{Op: "next"}, {Op: "obs"}, {Op: "next"}} // calls Next twice
		case 2:
			return []Action{{Op: "write", S: "<" + id}, {Op: "next"}, {Op: "write", S: id + ">"}}
		case 3:
			return []Action{{Op: "next"}, {Op: "next"}}
		}
		return []Action{{Op: "next"}}
	}
}

func genC04(mode string) func(rng *Rng, sc *Scenario) {
	return func(rng *Rng, sc *Scenario) {
		g := NewGen(rng, sc)
		long := mode == "long"
		g.GenShape(ShapeCfg{
			MaxRoutes: 6, MaxGlobals: 4, GroupChance: [2]int{1, 2},
			CacheChance: [2]int{1, 3}, Caps: []int{1, 2, 1000},
			FallbackOpts: true, LongChains: long, Scripts: c04Scripts(long),
		})
		nClients := 1
		if mode == "concurrent" {
			nClients = rng.Range(2, 4)
		}
		var prev []Req
		total := 0
		for t := 0; t < nClients; t++ {
			var cl Client
			k := rng.Range(1, 4)
			for i := 0; i < k; i++ {
				rq := g.GenRequest(prev)
				prev = append(prev, rq)
				cl.Reqs = append(cl.Reqs, rq)
				total++
			}
			sc.Clients = append(sc.Clients, cl)
		}
		sc.OrderSeed = rng.U64() | 1
		if mode == "concurrent" && rng.Chance(1, 5) {
			// a recovered panic earlier in the history: what it leaves in the pool is part of what later chains run on
			sc.Options.OnPanic = "p0"
			plantPanic(rng, sc, &sc.Clients[0].Reqs[0])
		}
		sc.Pool = GenPool(rng)
		sc.Sites = GenSites(rng)
		if nClients > 1 {
			sc.Schedule, _ = GenSchedule(rng, nClients, 30*total)
		}
	}
}

// expectedChain returns the handler ids the statement prescribes for a request, in start order.
// The last element is "" when rux's built-in fallback handler (invisible to the trace) ends the chain.
func expectedChain(w *World, nocache *World, method, path string) []string {
	route, _, allowed := nocache.R.QuickMatch(method, nocache.EffPath(path)) // as ServeHTTP does (Match would upper-case the method)
	chain := append([]string{}, w.globals...)
	if route != nil {
		main := nocache.Identify(route.Handler())
		for _, rr := range w.routes {
			if rr.op.H == main {
				chain = append(chain, rr.gmw...)
				chain = append(chain, rr.op.MW...)
				chain = append(chain, rr.op.LaterUse...)
				return append(chain, main)
			}
		}
		return append(chain, main)
	}
	fb := w.notFound
	if len(allowed) > 0 {
		fb = w.notAllow
	}
	if len(fb) == 0 {
		return append(chain, "")
	}
	return append(chain, fb...)
}

// interpretChain plays the scripts over a chain with the semantics of the
// statement: Next() starts every handler not started yet, in order; a handler
// that returns without calling Next() is followed by the rest; nothing starts
// after an abort.
func interpretChain(w *World, rq *Req, chain []string) []string {
	var out []string
	pos := 0
	aborted := false
	rs := &reqState{req: rq}
	var next func()
	run := func(id string) {
		if id == "" {
			return // built-in handler: invisible, never calls Next
		}
		out = append(out, "e"+id)
		for _, a := range w.script(rs, id) {
			switch a.Op {
			case "next", "wrapnext", "nextrecover":
				next()
			case "abort", "abortthen", "abortstatus":
				aborted = true
			}
		}
		out = append(out, "l"+id)
	}
	next = func() {
		for pos < len(chain) && !aborted {
			id := chain[pos]
			pos++
			run(id)
		}
	}
	next()
	return out
}

func checkC04(sc *Scenario) *CheckOut {
	out := &CheckOut{Faults: map[string]int64{}}
	res := RunConcurrent(sc)
	out.Res = res
	if res.W.regPanic != "" {
		return out
	}
	if res.Overrun {
		out.Viol = append(out.Viol, Violation{"C04", "no-progress", "run exceeded its step bound", ""})
		return out
	}
	if v := poolViolation("C04", res); v != nil {
		out.Viol = append(out.Viol, *v)
		return out
	}
	nocache := BuildWorld(sc, BuildOpt{NoCache: true})
	all := res.All()
	out.Requests = len(all)
	for _, rec := range all {
		if len(rec.PanicAt) > 0 {
			out.Faults["handler-panic"]++
			continue // what a panicking request does is C09's business; the others are judged as always
		}
		rq := &sc.Clients[rec.Task].Reqs[rec.Idx]
		chain := expectedChain(res.W, nocache, rec.Method, rec.Path)
		if len(chain) >= 3 {
			out.Nontrivial = true
		}
		if len(chain) >= 33 {
			out.Faults["chain-33-or-longer"]++
		}
		want := strings.Join(interpretChain(res.W, rq, chain), " ")
		got := strings.TrimSpace(enterSeq(rec))
		if got == want && rec.Escaped == "" {
			continue
		}
		class := "order"
		gs, ws := strings.Fields(got), strings.Fields(want)
		gc, wc := map[string]int{}, map[string]int{}
		for _, x := range gs {
			gc[x]++
		}
		for _, x := range ws {
			wc[x]++
		}
		var keys []string
		for k := range gc {
			keys = append(keys, k)
		}
		for k := range wc {
			if gc[k] == 0 {
				keys = append(keys, k)
			}
		}
		sort.Strings(keys)
		for _, k := range keys {
			switch {
			case k[0] == 'e' && gc[k] > 1 && gc[k] > wc[k]:
				class = "started-twice"
			case k[0] == 'e' && gc[k] < wc[k] && class == "order":
				class = "missing-handler"
			case k[0] == 'e' && gc[k] > wc[k] && class == "order":
				class = "extra-handler"
			}
		}
		if class == "order" {
			ge, we := "", ""
			for _, x := range gs {
				if x[0] == 'e' {
					ge += x + " "
				}
			}
			for _, x := range ws {
				if x[0] == 'e' {
					we += x + " "
				}
			}
			if ge == we {
				class = "leave-order"
			}
		}
		if rec.Escaped != "" {
			class = "panic"
		}
		out.Viol = append(out.Viol, Violation{"C04", class,
			fmt.Sprintf("client %d request %d (%s %s): handlers ran as\n  %s\nthe registration program prescribes the chain [%s], which with these handler scripts runs as\n  %s\n  escaped panic: %q",
				rec.Task, rec.Idx, rec.Method, rec.Path, got, strings.Join(chain, " "), want, rec.Escaped), ""})
		break
	}
	return out
}

func init() {
	rule := "a request is non-trivial when the prescribed chain has at least three handlers"
	register(&Profile{Prop: "C04", Name: "single", Quick: 30000, Thorough: 600000, Gen: genC04("single"), Check: checkC04, Rule: rule})
	register(&Profile{Prop: "C04", Name: "concurrent", Quick: 18000, Thorough: 400000, Gen: genC04("concurrent"), Check: checkC04, Rule: rule})
	register(&Profile{Prop: "C04", Name: "long", Quick: 6000, Thorough: 100000, Gen: genC04("long"), Check: checkC04, Rule: rule})
}
