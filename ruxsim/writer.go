package main

import (
	"bufio"
	"errors"
	"io"
	"net"
	"net/http"
	"sort"
	"strings"
)

// WCall is one call that reached the underlying (simulated) ResponseWriter.
type WCall struct {
	Op   string `json:"op"`             // WriteHeader | Write | Flush
	Code int    `json:"code,omitempty"` // WriteHeader
	Len  int    `json:"len,omitempty"`  // Write: bytes offered
	N    int    `json:"n,omitempty"`    // Write: bytes accepted
	Err  string `json:"err,omitempty"`  // Write: error returned
	// Implicit is set when a conformant net/http writer would have had to commit
	// "200 OK" by itself because this call arrived before any WriteHeader.
	Implicit bool `json:"implicit,omitempty"`
	// Superfluous is set for a WriteHeader that arrives after the commit.
	Superfluous bool `json:"superfluous,omitempty"`
	// At is the length of the request's trace when the call arrived (orders calls against trace items).
	At int `json:"-"`
}

// SimWriter is the simulated client connection: a recording, fault-injecting
// http.ResponseWriter + http.Flusher that commits the way net/http's does.
type SimWriter struct {
	hdr       http.Header
	Calls     []WCall
	Committed bool
	Code      int
	Snap      []string // header snapshot at commit, "K: v" sorted
	Body      []byte
	faults    []WFault
	nWrites   int
	Fired     []string // fault kinds that actually fired
	rec       *ReqRec
}

func (w *SimWriter) add(c WCall) {
	if w.rec != nil {
		c.At = len(w.rec.Trace)
	}
	w.Calls = append(w.Calls, c)
}

func NewSimWriter(f []WFault) *SimWriter {
	return &SimWriter{hdr: http.Header{}, faults: f}
}

func (w *SimWriter) Header() http.Header { return w.hdr }

func (w *SimWriter) commit(code int) {
	w.Committed = true
	w.Code = code
	keys := make([]string, 0, len(w.hdr))
	for k := range w.hdr {
		keys = append(keys, k)
	}
	sort.Strings(keys)
	for _, k := range keys {
		if k == "Last-Modified" {
			continue // http.ServeContent stamps the wall clock: not a simulated quantity
		}
		w.Snap = append(w.Snap, k+": "+strings.Join(w.hdr[k], ","))
	}
}

func (w *SimWriter) WriteHeader(code int) {
	taskYield(siteWCall)
	if w.Committed {
		w.add(WCall{Op: "WriteHeader", Code: code, Superfluous: true})
		return
	}
	w.add(WCall{Op: "WriteHeader", Code: code})
	w.commit(code)
}

var errInjected = errors.New("sim: connection reset")

func (w *SimWriter) Write(b []byte) (int, error) {
	taskYield(siteWCall)
	c := WCall{Op: "Write", Len: len(b)}
	if !w.Committed {
		c.Implicit = true
		w.commit(200)
	}
	n, err, fired := applyWFault(w.faults, w.nWrites, len(b))
	w.Fired = append(w.Fired, fired...)
	w.nWrites++
	c.N = n
	if err != nil {
		c.Err = err.Error()
	}
	w.Body = append(w.Body, b[:n]...)
	w.add(c)
	return n, err
}

// ReadFrom is what net/http's response offers to io.Copy. It is recorded as the
// Write calls a plain copy would have made, so that a wrapper which (correctly)
// delegates to it is not distinguishable from one that does not.
func (w *SimWriter) ReadFrom(r io.Reader) (int64, error) {
	var total int64
	buf := make([]byte, 32*1024)
	for {
		n, err := r.Read(buf)
		if n > 0 {
			m, werr := w.Write(buf[:n])
			total += int64(m)
			if werr != nil {
				return total, werr
			}
		}
		if err == io.EOF {
			return total, nil
		}
		if err != nil {
			return total, err
		}
	}
}

// Hijack hands out an in-memory connection, as a net/http response does.
func (w *SimWriter) Hijack() (net.Conn, *bufio.ReadWriter, error) {
	a, b := net.Pipe()
	b.Close()
	w.add(WCall{Op: "Hijack"})
	return a, bufio.NewReadWriter(bufio.NewReader(a), bufio.NewWriter(a)), nil
}

func (w *SimWriter) Flush() {
	taskYield(siteWCall)
	c := WCall{Op: "Flush"}
	if !w.Committed {
		c.Implicit = true
		w.commit(200)
	}
	w.add(c)
}

// FlushError is what http.ResponseController prefers; net/http's response has it.
func (w *SimWriter) FlushError() error {
	w.Flush()
	return nil
}

// applyWFault is the fault plan: what the k-th underlying Write of size bytes returns.
func applyWFault(faults []WFault, k, size int) (n int, err error, fired []string) {
	n = size
	for _, f := range faults {
		if f.At != k {
			continue
		}
		if f.N >= 0 && f.N < size {
			n = f.N
			err = io.ErrShortWrite
			fired = append(fired, "short-write")
		}
		if f.Err != "" {
			err = errInjected
			fired = append(fired, "write-error")
		}
	}
	return
}
