package main

import (
	"fmt"
	"net/http"
	"net/http/httptest"
	"strconv"
	"strings"
)

// C08 — exactly one header commit per request, with the status set before the body.
//
// Workload: one route whose 1..3 handlers (global / route middleware / main)
// issue up to 12 wrapper-level operations; the underlying writer follows a
// seeded fault plan. The oracle replays the operations *as recorded in the
// request's trace* (so chain order is taken from the run, not modelled) through
// a three-state model of the lazy header commit and compares the result with the
// call log of the underlying writer.

var c08Codes = []int{0, -1, 100, 200, 201, 204, 301, 404, 500, 599}
var c08OddCodes = []int{101, 103, 199, 202, 205, 206, 226, 300, 304, 307, 308, 400, 401, 418, 451, 499, 503, 511, 598, 1, 99, 600, 999, -200}
var c08Payloads = []string{"", "a", "hello", "0123456789abcdef0123456789abcdef", "x\n"}

func c08Code(rng *Rng) int {
	switch {
	case rng.Chance(1, 12):
		return c08OddCodes[rng.Intn(len(c08OddCodes))]
	case rng.Chance(1, 12):
		return rng.Range(100, 599)
	}
	return c08Codes[rng.Intn(len(c08Codes))]
}

func c08Payload(rng *Rng) string {
	switch {
	case rng.Chance(1, 30):
		return strings.Repeat("p", rng.Pick2(4096, 4097))
	case rng.Chance(1, 120):
		return strings.Repeat("q", 33000) // larger than io.Copy's buffer
	}
	return rng.Pick(c08Payloads)
}

func c08Ops(rng *Rng, n int, allowText bool) []Action {
	var out []Action
	for i := 0; i < n; i++ {
		switch rng.Intn(12) {
		case 0, 1, 2:
			out = append(out, Action{Op: "status", N: c08Code(rng)})
		case 3:
			out = append(out, Action{Op: "rawstatus", N: c08Code(rng)})
		case 4:
			if rng.Chance(1, 3) {
				out = append(out, Action{Op: "helper", N: rng.Pick2(200, 201), S: rng.Pick([]string{"json", "jsonbytes", "jsonp", "xml", "html", "htmlstring", "blob", "back", "cookie", "attachment", "inline", "statuscode"})})
			} else {
				out = append(out, Action{Op: "header", S: "X-K" + strconv.Itoa(rng.Intn(3)), V: "v"})
			}
		case 5, 6, 7:
			out = append(out, Action{Op: rng.Pick([]string{"write", "write", "write", "iowstr"}), S: c08Payload(rng)})
		case 8:
			out = append(out, Action{Op: "flush"})
		case 9:
			out = append(out, Action{Op: rng.Pick([]string{"flush", "flush", "rcflush"})})
		case 10:
			if rng.Chance(1, 2) {
				out = append(out, Action{Op: "httperr", N: rng.Pick2(404, 500), S: "oops"})
			} else {
				out = append(out, Action{Op: "redirect", N: []int{301, 302, 303, 307, 308}[rng.Intn(5)], S: "/to"})
			}
		case 11:
			if rng.Chance(1, 4) {
				out = append(out, Action{Op: "binary", N: rng.Pick2(200, 201), S: rng.Pick([]string{"a", "hello", "0123456789abcdef0123456789abcdef"})})
			} else if rng.Chance(1, 3) {
				out = append(out, Action{Op: "stream", N: rng.Pick2(200, 206), S: c08Payload(rng)})
			} else if allowText && rng.Chance(1, 2) {
				out = append(out, Action{Op: "text", N: rng.Pick2(200, 202), S: rng.Pick(c08Payloads)})
			} else {
				out = append(out, Action{Op: "obs"})
			}
		}
	}
	return out
}

func (r *Rng) Pick2(a, b int) int {
	if r.Chance(1, 2) {
		return a
	}
	return b
}

// genC08Client builds one self-contained route + request pair numbered k.
func genC08Route(rng *Rng, sc *Scenario, k int, faulty bool) (RegOp, Req) {
	id := func(p string, i int) string { return fmt.Sprintf("%s%d", p, k*10+i) }
	budget := rng.Range(1, 12)
	op := RegOp{Op: "route", Via: "verb", Path: fmt.Sprintf("/x%d", k), Methods: []string{rng.Pick([]string{"GET", "GET", "POST", "HEAD"})}, H: id("h", 0)}
	nmw := rng.Intn(3)
	for i := 0; i < nmw; i++ {
		m := id("r", i)
		op.MW = append(op.MW, m)
		a := rng.Intn(budget/2 + 1)
		b := rng.Intn(budget/2 + 1)
		var s []Action
		s = append(s, c08Ops(rng, a, !faulty)...)
		switch rng.Intn(8) {
		case 0: // never calls Next: the rest of the chain follows automatically
		case 1:
			s = append(s, Action{Op: "abortstatus", N: 403})
		default:
			s = append(s, Action{Op: "next"})
		}
		s = append(s, c08Ops(rng, b, !faulty)...)
		sc.Handlers[m] = s
	}
	main := c08Ops(rng, rng.Intn(budget+1), !faulty)
	if rng.Chance(1, 6) {
		// re-dispatch to a sibling route whose chain is exactly as long as this one
		main = append(main, Action{Op: "redispatch", S: fmt.Sprintf("/rd%d", k)})
		main = append(main, c08Ops(rng, rng.Intn(3), !faulty)...)
		sc.Handlers[id("q", 0)] = append(c08Ops(rng, rng.Intn(4), !faulty), Action{Op: "obs"})
	}
	main = append(main, Action{Op: "obs"})
	sc.Handlers[op.H] = main
	rq := Req{Method: op.Methods[0], Path: op.Path, Plain: rng.Chance(1, 8), HTTP10: rng.Chance(1, 6), Served: rng.Chance(1, 3), Expired: rng.Chance(1, 20)}
	if faulty {
		nf := rng.Range(1, 2)
		for i := 0; i < nf; i++ {
			f := WFault{At: rng.Intn(4), N: -1}
			switch rng.Intn(3) {
			case 0:
				f.N = rng.Intn(3)
			case 1:
				f.N = 0
				f.Err = "reset"
			default:
				f.N = rng.Intn(20)
				if rng.Chance(1, 2) {
					f.Err = "reset"
				}
			}
			rq.WFaults = append(rq.WFaults, f)
		}
	}
	return op, rq
}

func genC08(faulty, concurrent bool) func(rng *Rng, sc *Scenario) {
	return func(rng *Rng, sc *Scenario) {
		sc.Handlers = map[string][]Action{}
		// global middleware shared by all routes: pre/post operations around Next
		ng := rng.Intn(3)
		for i := 0; i < ng; i++ {
			g := fmt.Sprintf("g%d", i)
			var s []Action
			s = append(s, c08Ops(rng, rng.Intn(3), !faulty)...)
			if !rng.Chance(1, 8) {
				s = append(s, Action{Op: "next"})
			}
			s = append(s, c08Ops(rng, rng.Intn(3), !faulty)...)
			sc.Handlers[g] = s
			sc.Program = append(sc.Program, RegOp{Op: "use", MW: []string{g}})
		}
		n := 1
		if concurrent {
			n = rng.Range(2, 4)
		}
		for k := 0; k < n; k++ {
			op, rq := genC08Route(rng, sc, k, faulty)
			sc.Program = append(sc.Program, op)
			if _, ok := sc.Handlers[fmt.Sprintf("q%d", k*10)]; ok {
				sib := RegOp{Op: "route", Via: "verb", Path: fmt.Sprintf("/rd%d", k), Methods: op.Methods, H: fmt.Sprintf("q%d", k*10)}
				for i := range op.MW {
					sib.MW = append(sib.MW, fmt.Sprintf("s%d", k*10+i)) // default middleware script: obs, next, obs
				}
				sc.Program = append(sc.Program, sib)
			}
			cl := Client{Reqs: []Req{rq}}
			if rng.Chance(1, 4) {
				cl.Reqs = append(cl.Reqs, rq) // the same request again on a reused context
			}
			sc.Clients = append(sc.Clients, cl)
		}
		if rng.Chance(1, 6) {
			// a request whose handler takes over the connection, before the others: what it leaves in its pooled context must not matter
			sc.Handlers["h900"] = []Action{{Op: "hijack"}}
			sc.Program = append(sc.Program, RegOp{Op: "route", Via: "verb", Methods: []string{"GET"}, Path: "/hj", H: "h900"})
			sc.Clients[0].Reqs = append([]Req{{Method: "GET", Path: "/hj"}}, sc.Clients[0].Reqs...)
		}
		if rng.Chance(1, 6) {
			// a second rux router mounted below a route of this one
			sc.Inner = true
			sc.Handlers["i0"] = append(c08Ops(rng, rng.Intn(4), false), Action{Op: "obs"})
			sc.Handlers["i1"] = c08Ops(rng, rng.Intn(4), false)
			sc.Handlers["j0"] = append(append(c08Ops(rng, rng.Intn(2), false), Action{Op: "next"}), c08Ops(rng, rng.Intn(2), false)...)
			sc.Handlers["h901"] = append(append(c08Ops(rng, rng.Intn(3), false), Action{Op: "mount", S: rng.Pick([]string{"/in/a", "/in/b", "/in/none"})}), c08Ops(rng, rng.Intn(3), false)...)
			sc.Program = append(sc.Program, RegOp{Op: "route", Via: "verb", Methods: []string{"GET"}, Path: "/mnt", H: "h901"})
			sc.Clients[len(sc.Clients)-1].Reqs = append(sc.Clients[len(sc.Clients)-1].Reqs, Req{Method: "GET", Path: "/mnt"})
		}
		if rng.Chance(1, 5) {
			// a panic hook: the commit must still be single and carry what the hook set
			sc.Options.OnPanic = "p0"
			switch rng.Intn(3) {
			case 0:
				sc.Handlers["p0"] = []Action{{Op: "status", N: 503}, {Op: "write", S: "recovered"}}
			case 1:
				sc.Handlers["p0"] = []Action{{Op: "status", N: 500}}
			default:
				sc.Handlers["p0"] = []Action{{Op: "httperr", N: 500, S: "internal"}}
			}
			rq := &sc.Clients[0].Reqs[0]
			h := ""
			for _, op := range sc.Program {
				if op.Op == "route" && op.Path == rq.Path {
					h = op.H
				}
			}
			if h != "" {
				base := sc.Handlers[h]
				pos := rng.Intn(len(base) + 1)
				s := append([]Action{}, base[:pos]...)
				s = append(s, Action{Op: "panic", S: "str"})
				rq.Over = map[string][]Action{h: append(s, base[pos:]...)}
			}
		}
		sc.Pool = GenPool(rng)
		sc.Sites = GenSites(rng)
		if concurrent {
			sc.Schedule, _ = GenSchedule(rng, n, 60*n)
		}
	}
}

func checkC08(sc *Scenario) *CheckOut {
	out := &CheckOut{Faults: map[string]int64{}}
	res := RunConcurrent(sc)
	out.Res = res
	if res.W.regPanic != "" {
		return out
	}
	if res.Abandoned {
		out.Faults = map[string]int64{"pre-run-abandoned": 1}
		return out
	}
	if res.Overrun {
		out.Viol = append(out.Viol, Violation{"C08", "no-progress", "run exceeded its step bound", ""})
		return out
	}
	if v := poolViolation("C08", res); v != nil {
		out.Viol = append(out.Viol, *v)
		return out
	}
	for _, rec := range res.All() {
		rq := &sc.Clients[rec.Task].Reqs[rec.Idx]
		if len(rec.PanicAt) > 0 {
			out.Faults["handler-panic"]++
		}
		if rec.Hijacked {
			out.Faults["hijacked-connection"]++
			continue // the handler took over the connection: no header commit is expected of the router
		}
		mounted := false
		for _, it := range rec.Trace {
			mounted = mounted || it.K == "mount" || it.K == "helper" // (response helpers: judged structurally too)
		}
		// with a panic hook installed the commit model is continued through the hook's operations;
		// a request that went through a mounted router is judged structurally (one WriteHeader, before any body byte)
		if v := modelCommit("C08", rec, rq, sc.Options.OnPanic != "", mounted); v != nil {
			out.Viol = append(out.Viol, *v)
			break
		}
		ops := 0
		for _, t := range rec.Trace {
			if t.K == "do" {
				ops++
			}
		}
		if ops >= 2 {
			out.Nontrivial = true
		}
	}
	out.Requests = len(res.All())
	return out
}

// modelC08 replays the recorded wrapper-level operations through the model.
// It returns nil when the underlying call log is exactly what the model
// expects. Requests in which a handler panicked are not judged here (C09).
func modelC08(prop string, rec *ReqRec, rq *Req) *Violation {
	return modelCommit(prop, rec, rq, false, false)
}

// opaque: a built-in fallback handler (whose writes the trace does not show)
// took part in the request; only the structural part is then judged (exactly
// one WriteHeader, before any body byte).
func modelCommit(prop string, rec *ReqRec, rq *Req, judgePanicked, opaque bool) *Violation {
	if rec.Escaped != "" || (len(rec.PanicAt) > 0 && !judgePanicked) {
		return nil
	}
	var exp []WCall
	status, committed, length, nWrites := 0, false, -1, 0
	hadCT := false // http.Redirect writes its body only when no Content-Type was set before
	commit := func() {
		if !committed {
			code := status
			if code == 0 {
				code = 200
			}
			exp = append(exp, WCall{Op: "WriteHeader", Code: code})
			committed = true
			length = 0
		}
	}
	setStatus := func(code int) {
		if code > 0 && !committed {
			status = code
		}
	}
	type wres struct {
		n   int
		err error
	}
	write := func(b string) wres {
		commit()
		n, err, _ := applyWFault(rq.WFaults, nWrites, len(b))
		nWrites++
		c := WCall{Op: "Write", Len: len(b), N: n}
		if err != nil {
			c.Err = err.Error()
		}
		exp = append(exp, c)
		length += n
		return wres{n, err}
	}
	fail := func(class, format string, a ...any) *Violation {
		return &Violation{prop, class, fmt.Sprintf("%s %s: ", rec.Method, rec.Path) + fmt.Sprintf(format, a...) +
			"\n  trace: " + traceString(rec.Trace) + "\n  underlying calls: " + callsString(rec.Calls) + "\n  expected calls:   " + callsString(exp), ""}
	}
	var lastWrite *wres
	for _, t := range rec.Trace {
		switch t.K {
		case "do":
			parts := strings.SplitN(t.V, ":", 2)
			arg := ""
			if len(parts) > 1 {
				arg = parts[1]
			}
			switch parts[0] {
			case "status":
				n, _ := strconv.Atoi(arg)
				setStatus(n)
			case "write":
				r := write(arg)
				lastWrite = &r
			case "wstr":
				write(arg)
			case "flush", "rcflush":
				commit()
				if !rq.Plain { // a writer without Flush: the header is committed, then the wrapper's type assertion panics
					exp = append(exp, WCall{Op: "Flush"})
				}
			case "endofdispatch":
				commit() // a nested dispatch (HandleContext) ended: like every dispatch it commits the header
			case "httperr":
				p := strings.SplitN(arg, ":", 2)
				code, _ := strconv.Atoi(p[0])
				setStatus(code)
				rr := httptest.NewRecorder()
				http.Error(rr, p[1], code)
				hadCT = true
				write(rr.Body.String())
			case "redirect":
				p := strings.SplitN(arg, ":", 2)
				code, _ := strconv.Atoi(p[0])
				setStatus(code)
				rr := httptest.NewRecorder()
				if hadCT {
					rr.Header().Set("Content-Type", "preset")
				}
				hadCT = hadCT || rr.Header().Get("Content-Type") != "" || rec.Method == "GET" || rec.Method == "HEAD"
				http.Redirect(rr, httptest.NewRequest(rec.Method, "http://sim"+rec.Path, nil), p[1], code)
				if rr.Body.Len() > 0 {
					write(rr.Body.String())
				}
			case "binary":
				// Context.Binary: headers, then http.ServeContent: WriteHeader(200) (the code passed to Binary is recorded
				// first, ServeContent then sets 200) and the content, unless the method is HEAD
				p := strings.SplitN(arg, ":", 2)
				code, _ := strconv.Atoi(p[0])
				setStatus(code)
				setStatus(200)
				hadCT = true
				if rec.Method != "HEAD" {
					write(p[1])
				}
			case "stream":
				p := strings.SplitN(arg, ":", 2)
				code, _ := strconv.Atoi(p[0])
				setStatus(code)
				hadCT = true
				// io.Copy without ReaderFrom/WriterTo moves 32 KiB at a time and stops at the first error or short write
				for rest := p[1]; len(rest) > 0; {
					n := len(rest)
					if n > 32*1024 {
						n = 32 * 1024
					}
					r := write(rest[:n])
					if r.err != nil || r.n < n {
						break
					}
					rest = rest[n:]
				}
			case "text":
				p := strings.SplitN(arg, ":", 2)
				code, _ := strconv.Atoi(p[0])
				setStatus(code)
				hadCT = true
				if len(p[1]) > 0 {
					write(p[1])
				}
			}
		case "w":
			// what the wrapper returned to the handler, and Length() right after
			if lastWrite != nil && !opaque {
				want := fmt.Sprintf("%d,%v,len=%d", lastWrite.n, lastWrite.err, length)
				if t.V != want {
					class := "write-result"
					if strings.HasPrefix(t.V, fmt.Sprintf("%d,%v,", lastWrite.n, lastWrite.err)) {
						class = "length"
					}
					return fail(class, "handler %s: Write returned/Length() is (%s), the underlying writer's result and byte count give (%s)", t.H, t.V, want)
				}
				lastWrite = nil
			}
		case "obs":
			if i := strings.Index(t.V, " len="); i >= 0 && !opaque {
				f := strings.Fields(t.V[i+1:])[0]
				// before the commit no byte has been accepted: the statement says Length() is the number of bytes
				// accepted (0); the implementation's -1 ("nothing written yet") is accepted as well
				if f != "len="+strconv.Itoa(length) && !(length == -1 && f == "len=0") {
					return fail("length", "handler %s observed %s, accepted bytes so far give len=%d", t.H, f, length)
				}
			}
		}
	}
	if rec.Returned {
		commit() // a request whose handlers wrote nothing still commits when the chain ends
	}
	// compare
	nHdr, implicit, superfluous := 0, 0, 0
	for _, c := range rec.Calls {
		if c.Op == "WriteHeader" {
			nHdr++
		}
		if c.Implicit {
			implicit++
		}
		if c.Superfluous {
			superfluous++
		}
	}
	if implicit > 0 {
		return fail("implicit-commit", "a Write or Flush reached the underlying writer before any WriteHeader: a net/http writer has committed 200 by itself")
	}
	if nHdr == 0 {
		return fail("no-commit", "the underlying writer never received WriteHeader")
	}
	if nHdr > 1 || superfluous > 0 {
		return fail("double-commit", "the underlying writer received %d WriteHeader calls", nHdr)
	}
	if opaque {
		return nil
	}
	var gotCode, wantCode int
	for _, c := range rec.Calls {
		if c.Op == "WriteHeader" {
			gotCode = c.Code
		}
	}
	for _, c := range exp {
		if c.Op == "WriteHeader" {
			wantCode = c.Code
		}
	}
	if gotCode != wantCode {
		return fail("wrong-status", "committed status %d, the last positive status set before the first write or flush is %d", gotCode, wantCode)
	}
	if callsString(rec.Calls) != callsString(exp) {
		return fail("body", "underlying call sequence differs from the operations performed")
	}
	return nil
}

func traceString(t []TItem) string {
	var b strings.Builder
	for _, x := range t {
		b.WriteString(x.String())
		b.WriteByte(' ')
	}
	return b.String()
}

func callsString(cs []WCall) string {
	var b strings.Builder
	for _, c := range cs {
		switch c.Op {
		case "WriteHeader":
			fmt.Fprintf(&b, "WriteHeader(%d)", c.Code)
		case "Write":
			fmt.Fprintf(&b, "Write(%d)->(%d,%s)", c.Len, c.N, c.Err)
		default:
			b.WriteString(c.Op)
		}
		if c.Implicit {
			b.WriteString("[before-any-WriteHeader]")
		}
		if c.Superfluous {
			b.WriteString("[after-commit]")
		}
		b.WriteByte(' ')
	}
	return b.String()
}

func init() {
	rule := "a request is non-trivial when its handlers performed at least two wrapper-level operations (status/write/flush/helpers)"
	register(&Profile{Prop: "C08", Name: "single", Quick: 60000, Thorough: 1500000, Gen: genC08(false, false), Check: checkC08, Rule: rule})
	register(&Profile{Prop: "C08", Name: "single-faults", Quick: 60000, Thorough: 1500000, Gen: genC08(true, false), Check: checkC08, Rule: rule, Faulty: true})
	register(&Profile{Prop: "C08", Name: "concurrent-faults", Quick: 18000, Thorough: 400000, Gen: genC08(true, true), Check: checkC08, Rule: rule, Faulty: true})
	register(&Profile{Prop: "C08", Name: "concurrent-pre", Pre: true, Quick: 12000, Thorough: 200000, Gen: preempt(genC08(true, true)), Check: checkC08,
		Rule: "as concurrent-faults; a task can be preempted before every statement of rux (instrumented copy)"})
	register(&Profile{Prop: "C08", Name: "concurrent-race", Race: true, Quick: 1200, Thorough: 30000, Gen: coarseRace(genC08(true, true)), Check: checkC08,
		Rule: "as concurrent-faults, executed under the race detector with coarse schedules", Faulty: true})
}
