//go:build race

package main

import (
	"fmt"
	"os"
	"runtime"
	"sort"
	"strings"
)

const raceEnabled = true

func raceErrors() int { return runtime.RaceErrors() }

// raceLogPath is the file the race runtime of this process appends its reports to (GORACE log_path=<prefix>).
func raceLogPath() string {
	for _, kv := range strings.Fields(os.Getenv("GORACE")) {
		if strings.HasPrefix(kv, "log_path=") {
			return fmt.Sprintf("%s.%d", strings.TrimPrefix(kv, "log_path="), os.Getpid())
		}
	}
	return ""
}

// raceViolation turns the most recent report into a violation whose signature
// is the pair of top-most rux functions of the two conflicting accesses.
func raceViolation(prop string) Violation {
	text := ""
	if p := raceLogPath(); p != "" {
		b, _ := os.ReadFile(p)
		text = string(b)
	}
	sig, detail := parseRaceReport(text)
	return Violation{Property: prop, Class: "data-race", Detail: detail, Sig: sig}
}

func parseRaceReport(text string) (sig, detail string) {
	idx := strings.LastIndex(text, "WARNING: DATA RACE")
	if idx < 0 {
		return "unparsed", "race detector reported a race but no report text was found"
	}
	rep := text[idx:]
	if end := strings.Index(rep, "=================="); end > 0 {
		rep = rep[:end]
	}
	lines := strings.Split(rep, "\n")
	var tops []string
	var kinds []string
	for i := 0; i < len(lines); i++ {
		l := lines[i]
		if !(strings.HasPrefix(l, "Read at") || strings.HasPrefix(l, "Write at") || strings.HasPrefix(l, "Previous read at") || strings.HasPrefix(l, "Previous write at")) {
			continue
		}
		kinds = append(kinds, strings.ToLower(strings.Fields(strings.TrimPrefix(l, "Previous "))[0]))
		top := "?"
		for j := i + 1; j < len(lines) && strings.TrimSpace(lines[j]) != ""; j++ {
			f := lines[j]
			if strings.HasPrefix(f, "  ") && !strings.HasPrefix(f, "   ") && strings.Contains(f, "github.com/gookit/rux.") {
				name := strings.TrimSpace(f)
				name = strings.TrimPrefix(name, "github.com/gookit/")
				if k := strings.LastIndex(name, "("); k > 0 && strings.HasSuffix(name, ")") {
					name = name[:k]
				}
				top = name
				break
			}
		}
		tops = append(tops, top)
	}
	if len(tops) < 2 {
		return "unparsed", rep
	}
	pair := []string{kinds[0] + " in " + tops[0], kinds[1] + " in " + tops[1]}
	sort.Strings(pair)
	return strings.Join(pair, " | "), rep
}
