//go:build ruxpre

package main

// preEnabled: this binary is built against the instrumented copy of rux (a yield before every statement).
const preEnabled = true
