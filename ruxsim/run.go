package main

import (
	"fmt"
	"os"
	"sort"
)

func fatalf(format string, a ...any) {
	fmt.Fprintf(os.Stderr, "ruxsim: fatal: "+format+"\n", a...)
	os.Exit(2)
}

// RunResult is what one concurrent execution of a scenario produced.
type RunResult struct {
	W                                    *World
	Recs                                 [][]*ReqRec
	Steps                                []StepRec
	SchedHash                            uint64
	Overrun                              bool
	Abandoned                            bool     // (preemption profiles) step limit reached without a deadlock: the run is not judged
	States                               []uint64 // abstract state hash after every step
	Between                              []string // invariant failures noticed between steps
	Gets, Puts, Reuses, Drops, DoublePut int
	CacheFaultsApplied, CacheFaultsNoop  int
	Preemptions                          int
}

func (r *RunResult) All() []*ReqRec {
	var out []*ReqRec
	for _, rs := range r.Recs {
		out = append(out, rs...)
	}
	return out
}

// RunConcurrent executes the scenario's clients under the scheduler.
func RunConcurrent(sc *Scenario) *RunResult {
	orderSeed = sc.OrderSeed
	w := BuildWorld(sc, BuildOpt{})
	res := &RunResult{W: w}
	if w.regPanic != "" {
		return res
	}
	poolReset(sc.Pool)
	shResetSeq()
	n := len(sc.Clients)
	res.Recs = make([][]*ReqRec, n)
	bodies := make([]func(), n)
	total := 0
	for t := 0; t < n; t++ {
		t := t
		cl := &sc.Clients[t]
		total += len(cl.Reqs)
		res.Recs[t] = make([]*ReqRec, 0, len(cl.Reqs))
		bodies[t] = func() {
			for i := range cl.Reqs {
				rec := w.Serve(t, i, &cl.Reqs[i])
				res.Recs[t] = append(res.Recs[t], rec)
				taskYield(siteClientNext)
			}
		}
	}
	// progress bound: every handler of a chain yields a bounded number of times per request
	// (enter, each script action, around Next, leave), rux a bounded number of times per dispatch
	nh, na := 0, 0
	countOps(sc.Program, &nh)
	for _, s := range sc.Handlers {
		na += len(s)
	}
	s := newSched(sc, total*(600+16*nh+4*na)+400)
	faults := sc.CacheFaults
	var prevKeys []string
	s.Between = func(step int) {
		for _, f := range faults {
			if f.AtStep == step {
				if applyCacheFault(w, f) {
					res.CacheFaultsApplied++
				} else {
					res.CacheFaultsNoop++
				}
			}
		}
		if cr := w.R.VerifCache(); sc.Pre && cr != nil && !cr.VerifLockFree() {
			// statement-level preemption: a task is parked inside the cache's critical section. What the
			// lock protects is not in a state any caller can observe (and, if the structure is
			// hand-written rux code, not even safe to walk): nothing is read between these two steps.
			return
		}
		res.States = append(res.States, abstractState(w, s))
		reachProbes(w, s, &prevKeys)
		if cr := w.R.VerifCache(); cr != nil && sc.Options.Caching {
			keys, idx := cr.VerifKeys()
			if len(keys) > sc.Options.Capacity && !(sc.Options.Capacity == 0 && len(keys) == 0) {
				res.Between = append(res.Between, fmt.Sprintf("cache holds %d entries, capacity %d (step %d)", len(keys), sc.Options.Capacity, step))
			}
			if idx != len(keys) {
				res.Between = append(res.Between, fmt.Sprintf("cache index has %d keys, list %d (step %d)", idx, len(keys), step))
			}
		}
	}
	ok := s.Run(sc.Sites, bodies)
	res.Steps = s.Steps
	res.SchedHash = s.ScheduleHash()
	res.Overrun = !ok
	res.Abandoned = s.Abandoned(sc)
	res.Gets, res.Puts, res.Reuses, res.Drops, res.DoublePut = poolStats()
	prev := -1
	for _, st := range s.Steps {
		if prev >= 0 && st.Task != prev {
			res.Preemptions++
		}
		if st.Site == -2 {
			prev = -1
		} else {
			prev = st.Task
		}
	}
	poolReset(PoolCfg{Policy: "real"})
	return res
}

// reachProbes counts rare situations the schedules are meant to reach (run by the scheduler between steps).
func reachProbes(w *World, s *Sched, prevKeys *[]string) {
	if len(s.Steps) == 0 {
		return
	}
	var last [maxTasks]int
	for i := range last {
		last[i] = -3
	}
	for _, st := range s.Steps {
		last[st.Task] = st.Site
	}
	cur := s.Steps[len(s.Steps)-1]
	chainSite := siteIndex("dispatch.chain")
	inDispatch, midChain := 0, 0
	for t := 0; t < s.n; t++ {
		if last[t] == chainSite {
			inDispatch++
		}
		if t != cur.Task && last[t] >= siteHEnter && last[t] <= siteWCall {
			midChain++
		}
	}
	if inDispatch >= 2 && cur.Site == chainSite {
		probeAdd(prTwoInDispatch, 1)
	}
	if cur.Site == siteCacheHit && midChain > 0 {
		probeAdd(prCacheHitWhileOtherMidChain, 1)
	}
	if cr := w.R.VerifCache(); cr != nil {
		keys, _ := cr.VerifKeys()
		if len(keys) == len(*prevKeys) && len(keys) > 0 && len(keys) == w.sc.Options.Capacity {
			gone := 0
			for _, k := range *prevKeys {
				found := false
				for _, k2 := range keys {
					found = found || k == k2
				}
				if !found {
					gone++
				}
			}
			if gone > 0 {
				probeAdd(prEvictionObserved, 1)
			}
		}
		*prevKeys = keys
	}
}

func applyCacheFault(w *World, f CacheFault) bool {
	cr := w.R.VerifCache()
	if cr == nil || !cr.VerifLockFree() {
		return false // (a lock still held between two steps was leaked by a request: its own deadlock will be reported)
	}
	switch f.Op {
	case "flush":
		keys, _ := cr.VerifKeys()
		for _, k := range keys {
			cr.Delete(k)
		}
		return len(keys) > 0
	case "lru": // drop the least recently used entry
		keys, _ := cr.VerifKeys()
		if len(keys) == 0 {
			return false
		}
		return cr.Delete(keys[len(keys)-1])
	case "mru":
		keys, _ := cr.VerifKeys()
		if len(keys) == 0 {
			return false
		}
		return cr.Delete(keys[0])
	default:
		return cr.Delete(f.Key)
	}
}

func abstractState(w *World, s *Sched) uint64 {
	h := uint64(1469598103934665603)
	mixin := func(x uint64) { h ^= x; h *= 1099511628211 }
	if cr := w.R.VerifCache(); cr != nil {
		keys, _ := cr.VerifKeys()
		for _, k := range keys {
			mixin(hashStr(k))
		}
	}
	mixin(0xfeed)
	var buf [16]int
	n := poolFreeSnapshot(&buf)
	for i := 0; i < n; i++ {
		mixin(uint64(buf[i] + 1))
	}
	mixin(0xbeef)
	// where every task last stopped
	var last [maxTasks]int
	for i := range last {
		last[i] = -3
	}
	for _, st := range s.Steps {
		last[st.Task] = st.Site
	}
	for i := 0; i < s.n; i++ {
		mixin(uint64(last[i] + 4))
	}
	return h
}

// poolViolation reports a context that was released twice (or handed to two
// requests at once): the pooled contexts are shared state of C03, C09 and C10.
func poolViolation(prop string, res *RunResult) *Violation {
	if res.DoublePut == 0 {
		return nil
	}
	return &Violation{prop, "pool", fmt.Sprintf("the context pool was misused %d time(s): a context was released although it was already free, or while no request held it, or was handed to a request while another one still held it - two requests running at the same time can receive the same context", res.DoublePut), ""}
}

// RunSequential serves the given requests one after another on one fresh
// router, outside the scheduler, with the real pool.
func RunSequential(sc *Scenario, reqs []*Req, bo BuildOpt) (*World, []*ReqRec) {
	orderSeed = sc.OrderSeed
	w := BuildWorld(sc, bo)
	if w.regPanic != "" {
		return w, nil
	}
	out := make([]*ReqRec, 0, len(reqs))
	for i, rq := range reqs {
		out = append(out, w.Serve(-1, i, rq))
	}
	return w, out
}

// SoloTwin answers: what does this request produce as the only request on a freshly built identical router?
func SoloTwin(sc *Scenario, rq *Req, bo BuildOpt) *ReqRec {
	_, recs := RunSequential(sc, []*Req{rq}, bo)
	if len(recs) == 0 {
		return &ReqRec{}
	}
	return recs[0]
}

type twinCache struct {
	sc *Scenario
	bo BuildOpt
	m  map[string]*ReqRec
}

func newTwinCache(sc *Scenario, bo BuildOpt) *twinCache {
	return &twinCache{sc: sc, bo: bo, m: map[string]*ReqRec{}}
}

func reqKey(rq *Req) string {
	k := rq.Kind + " " + rq.Method + " " + rq.Path
	if rq.Gone {
		k += "|gone"
	}
	if rq.Plain {
		k += "|plain"
	}
	if rq.Expired {
		k += "|expired"
	}
	if rq.HTTP10 {
		k += "|1.0"
	}
	if rq.Served {
		k += "|served"
	}
	for _, f := range rq.WFaults {
		k += fmt.Sprintf("|%d:%d:%s", f.At, f.N, f.Err)
	}
	if len(rq.Over) > 0 {
		ids := make([]string, 0, len(rq.Over))
		for id := range rq.Over {
			ids = append(ids, id)
		}
		sort.Strings(ids)
		for _, id := range ids {
			k += "|" + id + "=" + fmt.Sprint(rq.Over[id])
		}
	}
	return k
}

func (t *twinCache) Get(rq *Req) *ReqRec {
	k := reqKey(rq)
	if r, ok := t.m[k]; ok {
		return r
	}
	r := SoloTwin(t.sc, rq, t.bo)
	t.m[k] = r
	return r
}

func countOps(ops []RegOp, n *int) {
	for i := range ops {
		*n += len(ops[i].MW) + len(ops[i].LaterUse) + 1
		countOps(ops[i].Body, n)
	}
}
