package main

import "sort"

// Shrink minimises a failing scenario: it applies structural reductions one at
// a time and keeps a candidate when stillFails says the same violation
// persists. Every candidate is one deterministic execution in a fresh process.
func Shrink(sc *Scenario, stillFails func(*Scenario) bool, budget int) *Scenario {
	cur := sc.Clone()
	cur.Expect = nil
	tries := 0
	try := func(c *Scenario) bool {
		if tries >= budget {
			return false
		}
		tries++
		if stillFails(c) {
			cur = c
			return true
		}
		return false
	}
	for progress := true; progress && tries < budget; {
		progress = false
		// 1. schedule tail (binary), then whole clients, then requests
		for n := len(cur.Schedule); n > 0 && tries < budget; {
			c := cur.Clone()
			c.Schedule = c.Schedule[:n/2]
			if try(c) {
				progress = true
				n = len(cur.Schedule)
			} else {
				break
			}
		}
		for i := len(cur.Clients) - 1; i >= 0 && len(cur.Clients) > 1; i-- {
			if try(dropClient(cur, i)) {
				progress = true
			}
		}
		for i := len(cur.Clients) - 1; i >= 0; i-- {
			for j := len(cur.Clients[i].Reqs) - 1; j >= 0; j-- {
				if len(cur.Clients[i].Reqs) <= 1 && len(cur.Clients[i].Ops) == 0 {
					break
				}
				c := cur.Clone()
				c.Clients[i].Reqs = append(c.Clients[i].Reqs[:j], c.Clients[i].Reqs[j+1:]...)
				if try(c) {
					progress = true
				}
			}
			for j := len(cur.Clients[i].Ops) - 1; j >= 0; j-- {
				c := cur.Clone()
				c.Clients[i].Ops = append(c.Clients[i].Ops[:j], c.Clients[i].Ops[j+1:]...)
				if try(c) {
					progress = true
				}
			}
		}
		// 2. faults
		for i := len(cur.CacheFaults) - 1; i >= 0; i-- {
			c := cur.Clone()
			c.CacheFaults = append(c.CacheFaults[:i], c.CacheFaults[i+1:]...)
			if try(c) {
				progress = true
			}
		}
		for i := range cur.Clients {
			for j := range cur.Clients[i].Reqs {
				if len(cur.Clients[i].Reqs[j].WFaults) > 0 {
					c := cur.Clone()
					c.Clients[i].Reqs[j].WFaults = nil
					if try(c) {
						progress = true
					}
				}
				if len(cur.Clients[i].Reqs[j].Over) > 0 {
					c := cur.Clone()
					c.Clients[i].Reqs[j].Over = nil
					if try(c) {
						progress = true
					}
				}
			}
		}
		// 3. registration program
		for _, path := range opPaths(cur.Program, nil) {
			c := cur.Clone()
			if removeOp(&c.Program, path) && try(c) {
				progress = true
				break // paths are stale after a removal; next round continues
			}
		}
		for _, path := range opPaths(cur.Program, nil) {
			op := opAt(cur.Program, path)
			if op == nil {
				continue
			}
			for _, field := range []int{0, 1} {
				list := op.MW
				if field == 1 {
					list = op.LaterUse
				}
				if op.Op == "notfound" || op.Op == "notallowed" {
					if len(list) <= 1 {
						continue
					}
				}
				for k := len(list) - 1; k >= 0; k-- {
					c := cur.Clone()
					o := opAt(c.Program, path)
					if field == 0 {
						o.MW = append(o.MW[:k], o.MW[k+1:]...)
					} else {
						o.LaterUse = append(o.LaterUse[:k], o.LaterUse[k+1:]...)
					}
					if try(c) {
						progress = true
					}
				}
			}
		}
		// 4. handler scripts
		ids := make([]string, 0, len(cur.Handlers))
		for id := range cur.Handlers {
			ids = append(ids, id)
		}
		sort.Strings(ids)
		for _, id := range ids {
			c := cur.Clone()
			delete(c.Handlers, id)
			if try(c) {
				progress = true
				continue
			}
			for k := len(cur.Handlers[id]) - 1; k >= 0; k-- {
				c := cur.Clone()
				s := c.Handlers[id]
				c.Handlers[id] = append(s[:k:k], s[k+1:]...)
				if try(c) {
					progress = true
				}
			}
		}
		// 5. options, seams
		optTries := []func(*Scenario) bool{
			func(c *Scenario) bool { ok := c.Options.StrictSlash; c.Options.StrictSlash = false; return ok },
			func(c *Scenario) bool { ok := c.Options.NotAllowed; c.Options.NotAllowed = false; return ok },
			func(c *Scenario) bool { ok := c.Options.Fallback; c.Options.Fallback = false; return ok },
			func(c *Scenario) bool { ok := c.Options.Caching; c.Options.Caching = false; c.Options.Capacity = 0; return ok },
			func(c *Scenario) bool { ok := c.Options.OnError != ""; c.Options.OnError = ""; return ok },
			func(c *Scenario) bool { ok := c.OrderSeed != 0; c.OrderSeed = 0; return ok },
			func(c *Scenario) bool { ok := c.Pool.DropN != 0; c.Pool.DropN = 0; return ok },
			func(c *Scenario) bool { ok := c.Pool.Policy != "lifo"; c.Pool.Policy = "lifo"; return ok },
			func(c *Scenario) bool {
				ok := c.Options.Caching && c.Options.Capacity > 1
				c.Options.Capacity = 1
				return ok
			},
		}
		for _, f := range optTries {
			c := cur.Clone()
			if f(c) && try(c) {
				progress = true
			}
		}
		for i := len(cur.Sites) - 1; i >= 0; i-- {
			c := cur.Clone()
			c.Sites = append(c.Sites[:i], c.Sites[i+1:]...)
			if try(c) {
				progress = true
			}
		}
		// 6. schedule entries one by one (removes preemptions)
		for i := len(cur.Schedule) - 1; i >= 0 && tries < budget; i-- {
			if i >= len(cur.Schedule) {
				continue
			}
			c := cur.Clone()
			c.Schedule = append(c.Schedule[:i], c.Schedule[i+1:]...)
			if try(c) {
				progress = true
			}
		}
	}
	return cur
}

func dropClient(sc *Scenario, i int) *Scenario {
	c := sc.Clone()
	c.Clients = append(c.Clients[:i], c.Clients[i+1:]...)
	var ns []int
	for _, t := range c.Schedule {
		switch {
		case t == i:
		case t > i:
			ns = append(ns, t-1)
		default:
			ns = append(ns, t)
		}
	}
	c.Schedule = ns
	return c
}

// opPaths lists index paths of all ops, innermost last (children before later siblings are fine).
func opPaths(ops []RegOp, prefix []int) [][]int {
	var out [][]int
	for i := len(ops) - 1; i >= 0; i-- {
		p := append(append([]int{}, prefix...), i)
		out = append(out, p)
		if len(ops[i].Body) > 0 {
			out = append(out, opPaths(ops[i].Body, p)...)
		}
	}
	return out
}

func opAt(ops []RegOp, path []int) *RegOp {
	cur := ops
	var op *RegOp
	for _, i := range path {
		if i >= len(cur) {
			return nil
		}
		op = &cur[i]
		cur = op.Body
	}
	return op
}

func removeOp(ops *[]RegOp, path []int) bool {
	if len(path) == 1 {
		i := path[0]
		if i >= len(*ops) {
			return false
		}
		*ops = append((*ops)[:i], (*ops)[i+1:]...)
		return true
	}
	if path[0] >= len(*ops) {
		return false
	}
	return removeOp(&(*ops)[path[0]].Body, path[1:])
}
