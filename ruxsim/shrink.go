package main

import (
	"sort"
	"sync"
)

// Shrink minimises a failing scenario. Every reduction pass is a list of
// positions (clients, requests, registration ops, middleware ids, script
// actions, faults, sites, schedule entries, option flags); a candidate removes
// or simplifies what is at one position. Candidates are evaluated, each as one
// deterministic execution in a fresh process, in chunks of `par` at a time,
// all built from the current scenario; the first successful one in position
// order is adopted, so the result does not depend on timing. Positions are
// visited from the highest to the lowest and every reduction only disturbs
// positions at or above its own, so a pass continues below an adopted
// candidate without re-enumerating.
func Shrink(sc *Scenario, stillFails func(*Scenario) bool, budget int) *Scenario {
	sh := &shrinker{cur: sc.Clone(), test: stillFails, budget: budget, par: 8}
	sh.cur.Expect = nil
	for progress := true; progress && sh.tries < sh.budget; {
		progress = false
		// schedule tail, binary
		for len(sh.cur.Schedule) > 0 && sh.tries < sh.budget {
			c := sh.cur.Clone()
			c.Schedule = c.Schedule[:len(c.Schedule)/2]
			sh.tries++
			if !sh.test(c) {
				break
			}
			sh.cur, progress = c, true
		}
		// preemption points: tail first (what follows the violation is irrelevant), then blocks of
		// halving size; single points are left to the pass below
		for len(sh.cur.Points) > 1 && sh.tries < sh.budget {
			c := sh.cur.Clone()
			c.Points = c.Points[:len(c.Points)/2]
			sh.tries++
			if !sh.test(c) {
				break
			}
			sh.cur, progress = c, true
		}
		for chunk := len(sh.cur.Points) / 2; chunk >= 2 && sh.tries < sh.budget; chunk /= 2 {
			for i := len(sh.cur.Points) - chunk; i >= 0 && sh.tries < sh.budget; i -= chunk {
				if i+chunk > len(sh.cur.Points) {
					continue
				}
				c := sh.cur.Clone()
				c.Points = append(c.Points[:i], c.Points[i+chunk:]...)
				sh.tries++
				if sh.test(c) {
					sh.cur, progress = c, true
				}
			}
		}
		for _, p := range shrinkPasses {
			if sh.pass(p) {
				progress = true
			}
		}
	}
	return sh.cur
}

type shrinker struct {
	cur    *Scenario
	test   func(*Scenario) bool
	budget int
	tries  int
	par    int
}

// a pass: count positions in a scenario; build the candidate for one position (nil: not applicable)
type shrinkPass struct {
	name  string
	count func(*Scenario) int
	build func(*Scenario, int) *Scenario
}

func (sh *shrinker) pass(p shrinkPass) bool {
	progress := false
	i := p.count(sh.cur) - 1
	for i >= 0 && sh.tries < sh.budget {
		var idx []int
		var cands []*Scenario
		j := i
		for ; j >= 0 && len(cands) < sh.par; j-- {
			if c := p.build(sh.cur, j); c != nil {
				idx = append(idx, j)
				cands = append(cands, c)
			}
		}
		if len(cands) == 0 {
			break
		}
		res := make([]bool, len(cands))
		var wg sync.WaitGroup
		for k := range cands {
			wg.Add(1)
			go func(k int) {
				defer wg.Done()
				res[k] = sh.test(cands[k])
			}(k)
		}
		wg.Wait()
		sh.tries += len(cands)
		adopted := -1
		for k := range cands {
			if res[k] {
				adopted = k
				break
			}
		}
		if adopted >= 0 {
			sh.cur = cands[adopted]
			progress = true
			i = idx[adopted] - 1
		} else {
			i = j
		}
	}
	return progress
}

// ---- position enumerations ----

type reqPos struct{ c, r int }

func reqPositions(sc *Scenario) []reqPos {
	var out []reqPos
	for c := range sc.Clients {
		for r := range sc.Clients[c].Reqs {
			out = append(out, reqPos{c, r})
		}
	}
	return out
}

func copPositions(sc *Scenario) []reqPos {
	var out []reqPos
	for c := range sc.Clients {
		for r := range sc.Clients[c].Ops {
			out = append(out, reqPos{c, r})
		}
	}
	return out
}

// opPaths lists the index paths of all registration ops in pre-order.
func opPaths(ops []RegOp, prefix []int) [][]int {
	var out [][]int
	for i := range ops {
		p := append(append([]int{}, prefix...), i)
		out = append(out, p)
		if len(ops[i].Body) > 0 {
			out = append(out, opPaths(ops[i].Body, p)...)
		}
	}
	return out
}

func opAt(ops []RegOp, path []int) *RegOp {
	cur := ops
	var op *RegOp
	for _, i := range path {
		if i >= len(cur) {
			return nil
		}
		op = &cur[i]
		cur = op.Body
	}
	return op
}

func removeOp(ops *[]RegOp, path []int) bool {
	if len(path) == 1 {
		i := path[0]
		if i >= len(*ops) {
			return false
		}
		*ops = append((*ops)[:i], (*ops)[i+1:]...)
		return true
	}
	if path[0] >= len(*ops) {
		return false
	}
	return removeOp(&(*ops)[path[0]].Body, path[1:])
}

type mwPos struct {
	path  []int
	field int // 0: MW, 1: LaterUse
	k     int
}

func mwPositions(sc *Scenario) []mwPos {
	var out []mwPos
	for _, p := range opPaths(sc.Program, nil) {
		op := opAt(sc.Program, p)
		for k := range op.MW {
			out = append(out, mwPos{p, 0, k})
		}
		for k := range op.LaterUse {
			out = append(out, mwPos{p, 1, k})
		}
	}
	return out
}

type actPos struct {
	id string
	k  int // -1: the whole script (back to the default)
}

func actPositions(sc *Scenario) []actPos {
	ids := make([]string, 0, len(sc.Handlers))
	for id := range sc.Handlers {
		ids = append(ids, id)
	}
	sort.Strings(ids)
	var out []actPos
	for _, id := range ids {
		out = append(out, actPos{id, -1}) // before its actions: removing the script only disturbs higher positions
		for k := range sc.Handlers[id] {
			out = append(out, actPos{id, k})
		}
	}
	return out
}

type overPos struct {
	c, r int
	id   string
	k    int
}

func overPositions(sc *Scenario) []overPos {
	var out []overPos
	for c := range sc.Clients {
		for r := range sc.Clients[c].Reqs {
			ov := sc.Clients[c].Reqs[r].Over
			ids := make([]string, 0, len(ov))
			for id := range ov {
				ids = append(ids, id)
			}
			sort.Strings(ids)
			for _, id := range ids {
				out = append(out, overPos{c, r, id, -1})
				for k := range ov[id] {
					out = append(out, overPos{c, r, id, k})
				}
			}
		}
	}
	return out
}

var optionReductions = []func(*Scenario) bool{
	func(c *Scenario) bool { ok := c.Options.StrictSlash; c.Options.StrictSlash = false; return ok },
	func(c *Scenario) bool { ok := c.Options.NotAllowed; c.Options.NotAllowed = false; return ok },
	func(c *Scenario) bool { ok := c.Options.Fallback; c.Options.Fallback = false; return ok },
	func(c *Scenario) bool { ok := c.Options.EncodedPath; c.Options.EncodedPath = false; return ok },
	func(c *Scenario) bool { ok := c.Options.Wrapped; c.Options.Wrapped = false; return ok },
	func(c *Scenario) bool { ok := c.Options.Intercept != ""; c.Options.Intercept = ""; return ok },
	func(c *Scenario) bool {
		ok := c.Options.Caching
		c.Options.Caching, c.Options.Capacity = false, 0
		return ok
	},
	func(c *Scenario) bool { ok := c.Options.OnError != ""; c.Options.OnError = ""; return ok },
	func(c *Scenario) bool { ok := c.OrderSeed != 0; c.OrderSeed = 0; return ok },
	func(c *Scenario) bool { ok := len(c.SharedMW) > 0; c.SharedMW = nil; return ok },
	func(c *Scenario) bool { ok := c.Pool.DropN != 0; c.Pool.DropN = 0; return ok },
	func(c *Scenario) bool { ok := c.Pool.Policy != "lifo"; c.Pool.Policy = "lifo"; return ok },
	func(c *Scenario) bool {
		ok := c.Options.Caching && c.Options.Capacity > 1
		c.Options.Capacity = 1
		return ok
	},
	func(c *Scenario) bool { ok := c.CacheCap > 1; c.CacheCap = 1; return ok },
}

var shrinkPasses = []shrinkPass{
	{"client", func(s *Scenario) int { return len(s.Clients) }, func(s *Scenario, i int) *Scenario {
		if len(s.Clients) <= 1 {
			return nil
		}
		return dropClient(s, i)
	}},
	{"request", func(s *Scenario) int { return len(reqPositions(s)) }, func(s *Scenario, i int) *Scenario {
		p := reqPositions(s)[i]
		if len(s.Clients[p.c].Reqs) <= 1 {
			return nil
		}
		c := s.Clone()
		c.Clients[p.c].Reqs = append(c.Clients[p.c].Reqs[:p.r], c.Clients[p.c].Reqs[p.r+1:]...)
		return c
	}},
	{"cacheop", func(s *Scenario) int { return len(copPositions(s)) }, func(s *Scenario, i int) *Scenario {
		p := copPositions(s)[i]
		c := s.Clone()
		c.Clients[p.c].Ops = append(c.Clients[p.c].Ops[:p.r], c.Clients[p.c].Ops[p.r+1:]...)
		return c
	}},
	{"cachefault", func(s *Scenario) int { return len(s.CacheFaults) }, func(s *Scenario, i int) *Scenario {
		c := s.Clone()
		c.CacheFaults = append(c.CacheFaults[:i], c.CacheFaults[i+1:]...)
		return c
	}},
	{"writerfaults", func(s *Scenario) int { return len(reqPositions(s)) }, func(s *Scenario, i int) *Scenario {
		p := reqPositions(s)[i]
		if len(s.Clients[p.c].Reqs[p.r].WFaults) == 0 {
			return nil
		}
		c := s.Clone()
		f := c.Clients[p.c].Reqs[p.r].WFaults
		c.Clients[p.c].Reqs[p.r].WFaults = f[:len(f)-1]
		return c
	}},
	{"override", func(s *Scenario) int { return len(overPositions(s)) }, func(s *Scenario, i int) *Scenario {
		p := overPositions(s)[i]
		c := s.Clone()
		ov := c.Clients[p.c].Reqs[p.r].Over
		if p.k < 0 {
			delete(ov, p.id)
			if len(ov) == 0 {
				c.Clients[p.c].Reqs[p.r].Over = nil
			}
		} else {
			a := ov[p.id]
			ov[p.id] = append(a[:p.k:p.k], a[p.k+1:]...)
		}
		return c
	}},
	{"regop", func(s *Scenario) int { return len(opPaths(s.Program, nil)) }, func(s *Scenario, i int) *Scenario {
		c := s.Clone()
		if !removeOp(&c.Program, opPaths(s.Program, nil)[i]) {
			return nil
		}
		return c
	}},
	{"middleware", func(s *Scenario) int { return len(mwPositions(s)) }, func(s *Scenario, i int) *Scenario {
		p := mwPositions(s)[i]
		c := s.Clone()
		o := opAt(c.Program, p.path)
		if (o.Op == "notfound" || o.Op == "notallowed") && len(o.MW) <= 1 {
			return nil
		}
		if p.field == 0 {
			o.MW = append(o.MW[:p.k], o.MW[p.k+1:]...)
		} else {
			o.LaterUse = append(o.LaterUse[:p.k], o.LaterUse[p.k+1:]...)
		}
		return c
	}},
	{"script", func(s *Scenario) int { return len(actPositions(s)) }, func(s *Scenario, i int) *Scenario {
		p := actPositions(s)[i]
		c := s.Clone()
		if p.k < 0 {
			delete(c.Handlers, p.id)
		} else {
			a := c.Handlers[p.id]
			c.Handlers[p.id] = append(a[:p.k:p.k], a[p.k+1:]...)
		}
		return c
	}},
	{"option", func(s *Scenario) int { return len(optionReductions) }, func(s *Scenario, i int) *Scenario {
		c := s.Clone()
		if !optionReductions[i](c) {
			return nil
		}
		return c
	}},
	{"site", func(s *Scenario) int { return len(s.Sites) }, func(s *Scenario, i int) *Scenario {
		c := s.Clone()
		c.Sites = append(c.Sites[:i], c.Sites[i+1:]...)
		return c
	}},
	{"point", func(s *Scenario) int { return len(s.Points) }, func(s *Scenario, i int) *Scenario {
		c := s.Clone()
		c.Points = append(c.Points[:i], c.Points[i+1:]...)
		return c
	}},
	{"schedule", func(s *Scenario) int { return len(s.Schedule) }, func(s *Scenario, i int) *Scenario {
		c := s.Clone()
		c.Schedule = append(c.Schedule[:i], c.Schedule[i+1:]...)
		return c
	}},
}

func dropClient(sc *Scenario, i int) *Scenario {
	c := sc.Clone()
	c.Clients = append(c.Clients[:i], c.Clients[i+1:]...)
	var ns []int
	for _, t := range c.Schedule {
		switch {
		case t == i:
		case t > i:
			ns = append(ns, t-1)
		default:
			ns = append(ns, t)
		}
	}
	c.Schedule = ns
	var np []PPoint
	for _, pt := range c.Points {
		switch {
		case pt.To == i:
		case pt.To > i:
			np = append(np, PPoint{pt.At, pt.To - 1})
		default:
			np = append(np, pt)
		}
	}
	c.Points = np
	return c
}
