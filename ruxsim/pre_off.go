//go:build !ruxpre

package main

const preEnabled = false
