package main

import (
	"fmt"
	"reflect"
	"sort"
	"strings"

	"github.com/gookit/rux"
)

// C16 — Resource registers exactly the documented REST table for the controller.
//
// Resource ranges over a Go map, so one execution samples one of 5040
// registration orders; that order is behind the verif "Actions" seam and drawn
// from the seed. Controllers: all 128 subsets of the seven actions, with and
// without Uses() (generated types, ctrl_gen.go). Oracle: the table in the
// statement.

var restActions = []string{"Index", "Create", "Store", "Show", "Edit", "Update", "Delete"}

type ctrlState struct {
	w    *World
	tag  string
	uses map[string][]rux.HandlerFunc
}

func (st *ctrlState) play(action string, c *rux.Context) { st.w.play("a"+st.tag+":"+action, c) }

func ctrlTag(op *RegOp) string {
	if op.WithUses {
		return fmt.Sprintf("u%03d", op.Ctrl)
	}
	return fmt.Sprintf("c%03d", op.Ctrl)
}

func (w *World) registerResource(op *RegOp) {
	st := &ctrlState{w: w, tag: ctrlTag(op), uses: map[string][]rux.HandlerFunc{}}
	for act, ids := range op.Uses {
		st.uses[act] = w.hs(ids)
	}
	mk, ok := ctrlMakers[op.Ctrl]
	if !ok {
		panic("ruxsim: no controller type for mask")
	}
	var ctrl any = mk(st, op.WithUses)
	switch op.Kind {
	case "nonptr":
		ctrl = reflect.ValueOf(ctrl).Elem().Interface()
	case "nonstruct":
		n := 7
		ctrl = &n
	case "ptrptr":
		pp := reflect.New(reflect.TypeOf(ctrl))
		pp.Elem().Set(reflect.ValueOf(ctrl))
		ctrl = pp.Interface() // **Struct: a pointer, but not to a struct
	}
	w.R.Resource(op.Path, ctrl, w.hs(op.MW)...)
	if op.Again != "" {
		if op.AgainNew && op.Kind == "" {
			st2 := &ctrlState{w: w, tag: st.tag + "b", uses: st.uses}
			ctrl = mk(st2, op.WithUses)
		}
		w.R.Resource(op.Again, ctrl, w.hs(op.MW)...)
	}
}

func hasAct(mask int, name string) bool {
	for i, a := range restActions {
		if a == name {
			return mask>>i&1 == 1
		}
	}
	return false
}

// c16Expect is the documented table: which action serves (method, rel) where rel is the path below /res.
func c16Expect(mask int, method, rel string) (action, id string) {
	segs := strings.Split(strings.Trim(rel, "/"), "/")
	if rel == "" || rel == "/" {
		segs = nil
	}
	switch len(segs) {
	case 0:
		switch method {
		case "GET":
			action = "Index"
		case "POST":
			action = "Store"
		}
	case 1:
		id = segs[0]
		switch method {
		case "GET":
			action = "Show"
			if segs[0] == "create" && hasAct(mask, "Create") {
				action, id = "Create", ""
			}
		case "PUT", "PATCH":
			action = "Update"
		case "DELETE":
			action = "Delete"
		}
	case 2:
		if segs[1] == "edit" && method == "GET" {
			action, id = "Edit", segs[0]
		}
	}
	if action != "" && !hasAct(mask, action) {
		return "", ""
	}
	if action == "" {
		id = ""
	}
	return
}

var c16Rels = []string{"", "/", "/create", "/7", "/7/", "/7/edit", "/create/edit", "/7/x", "/bob"}
var c16Methods = []string{"GET", "POST", "PUT", "PATCH", "DELETE", "CONNECT", "TRACE"}

func genC16(concurrent bool) func(rng *Rng, sc *Scenario) {
	return func(rng *Rng, sc *Scenario) {
		sc.Handlers = map[string][]Action{}
		// every controller type is visited: the run index picks (mask, uses), the seed everything else
		mask := sc.Run % 128
		withUses := (sc.Run/128)%2 == 1
		op := RegOp{Op: "resource", Ctrl: mask, WithUses: withUses, Path: "/"}
		if rng.Chance(1, 3) {
			op.Path = rng.Pick([]string{"/api/", "/api/", "/API/v2/", "/Shop/", "/shops/{shop}/"}) // the last one: a base path with a variable
		}
		for i, n := 0, rng.Intn(3); i < n; i++ {
			op.MW = append(op.MW, fmt.Sprintf("m%d", i))
		}
		if rng.Chance(1, 4) {
			op.Again = "/adm/"
			op.AgainNew = rng.Chance(1, 2)
		}
		if withUses {
			op.Uses = map[string][]string{}
			for _, a := range restActions {
				if rng.Chance(1, 2) { // also for actions the controller does not implement
					n := rng.Range(1, 2)
					for i := 0; i < n; i++ {
						op.Uses[a] = append(op.Uses[a], fmt.Sprintf("u%s%d", a, i))
					}
				}
			}
		}
		if rng.Chance(1, 40) {
			op.Kind = rng.Pick([]string{"nonptr", "nonstruct", "ptrptr"})
		}
		base := op.Path
		prog := []RegOp{}
		for i, n := 0, rng.Intn(4); i < n; i++ {
			prog = append(prog, RegOp{Op: "use", MW: []string{fmt.Sprintf("g%d", i)}}) // separate Use calls: spare capacity in the shared slice
		}
		if rng.Chance(1, 3) {
			prog = append(prog, RegOp{Op: "notfound", MW: []string{"n0", "n1"}})
			sc.Handlers["n0"] = []Action{{Op: "next"}}
			sc.Handlers["n1"] = []Action{{Op: "status", N: 404}, {Op: "write", S: "custom-404"}}
		}
		if rng.Chance(1, 3) {
			prog = append(prog, RegOp{Op: "route", Via: "verb", Methods: []string{"GET"}, Path: "/other", H: "h0"})
		}
		if rng.Chance(1, 3) {
			g := RegOp{Op: "group", Path: "/v1", Body: []RegOp{op}}
			for i, n := 0, rng.Intn(3); i < n; i++ {
				g.MW = append(g.MW, fmt.Sprintf("m%d", 10+i))
			}
			prog = append(prog, g)
			base = "/v1" + strings.TrimSuffix(op.Path, "/") + "/"
		} else {
			prog = append(prog, op)
		}
		if rng.Chance(1, 4) {
			prog = append(prog, RegOp{Op: "route", Via: "verb", Methods: []string{"POST"}, Path: "/zz/{id}", H: "h1"})
		}
		if strings.Contains(op.Path, "{shop}") && rng.Chance(1, 2) {
			// many more GET routes in the resource's first-segment bucket, registered after it, with longer and shorter static prefixes
			for i, n := 0, rng.Range(12, 20); i < n; i++ {
				p := fmt.Sprintf("/shops/{shop}/x%d/{a}", i)
				if i%3 == 0 {
					p = fmt.Sprintf("/shops/static%d/{a}", i)
				}
				prog = append(prog, RegOp{Op: "route", Via: "verb", Methods: []string{"GET"}, Path: p, H: fmt.Sprintf("h%d", 10+i)})
			}
		}
		sc.Program = prog
		sc.Options.NotAllowed = rng.Chance(1, 2)
		if rng.Chance(1, 3) {
			sc.Options.Caching, sc.Options.Capacity = true, rng.Pick2(2, 1000)
			if mask == 0 {
				// a caching router without any route dereferences a nil cache on lookup (C13's business, not claimed): keep one route
				sc.Program = append(sc.Program, RegOp{Op: "route", Via: "verb", Methods: []string{"GET"}, Path: "/keep", H: "h2"})
			}
		}
		sc.OrderSeed = rng.U64() | 1
		res := strings.ReplaceAll(base, "{shop}", "7") + strings.ToLower(ctrlTag(&op))
		// probes: all methods x all relative paths, in seeded order, spread over the clients
		var probes []Req
		for _, m := range c16Methods {
			for _, rel := range c16Rels {
				probes = append(probes, Req{Method: m, Path: res + rel})
				if op.Again != "" && rng.Chance(1, 2) {
					probes = append(probes, Req{Method: m, Path: strings.ReplaceAll(strings.TrimSuffix(base, op.Path), "{shop}", "7") + op.Again + strings.ToLower(ctrlTag(&op)) + rel})
				}
			}
		}
		probes = append(probes, Req{Method: "GET", Path: "/other"}, Req{Method: "GET", Path: res + "x"})
		perm := rng.Perm(len(probes))
		nClients := 1
		if concurrent {
			nClients = rng.Range(2, 4)
		}
		sc.Clients = make([]Client, nClients)
		for i, j := range perm {
			sc.Clients[i%nClients].Reqs = append(sc.Clients[i%nClients].Reqs, probes[j])
		}
		sc.Pool = GenPool(rng)
		sc.Sites = []string{"h.enter", "client.next"}
		if concurrent {
			sc.Sites = GenSites(rng)
			sc.Schedule, _ = GenSchedule(rng, nClients, 6*len(probes))
		}
	}
}

func findResource(ops []RegOp, prefix string) (*RegOp, []string) {
	for i := range ops {
		switch ops[i].Op {
		case "resource":
			tag := strings.ToLower(ctrlTag(&ops[i]))
			ps := []string{prefix + strings.TrimSuffix(ops[i].Path, "/") + "/" + tag}
			if ops[i].Again != "" {
				ps = append(ps, prefix+strings.TrimSuffix(ops[i].Again, "/")+"/"+tag)
			}
			return &ops[i], ps
		case "group":
			if op, p := findResource(ops[i].Body, prefix+ops[i].Path); op != nil {
				return op, p
			}
		}
	}
	return nil, nil
}

func c16Judge(sc *Scenario) (viol []Violation, res *RunResult, nontrivial bool) {
	op, resPaths := findResource(sc.Program, "")
	res = RunConcurrent(sc)
	if op == nil {
		return
	}
	fail := func(class, format string, a ...any) {
		if len(viol) == 0 {
			viol = append(viol, Violation{"C16", class, fmt.Sprintf("Resource(%q, %s controller with actions %v, uses=%v): ", op.Path, op.Kind, actionsOf(op.Ctrl), op.WithUses) + fmt.Sprintf(format, a...), ""})
		}
	}
	if op.Kind != "" {
		if res.W.regPanic == "" {
			fail("bad-controller", "a %s controller was accepted", op.Kind)
		}
		return
	}
	if res.W.regPanic != "" {
		fail("missing", "registration panicked: %s", res.W.regPanic)
		return
	}
	if res.Overrun {
		fail("no-progress", "run exceeded its step bound")
		return
	}
	nontrivial = op.Ctrl != 0
	// 1. registered routes and names under the resource prefix
	tablePath := map[string]string{"Index": "", "Create": "/create", "Store": "", "Show": "/{id}", "Edit": "/{id}/edit", "Update": "/{id}", "Delete": "/{id}"}
	tableMethods := map[string]string{"Index": "GET", "Create": "GET", "Store": "POST", "Show": "GET", "Edit": "GET", "Update": "PATCH,PUT", "Delete": "DELETE"}
	var want []string
	tag := strings.ToLower(ctrlTag(op))
	under := func(p string) string {
		for _, rp := range resPaths {
			if p == rp || strings.HasPrefix(p, rp+"/") {
				return rp
			}
		}
		return ""
	}
	for _, resPath := range resPaths {
		for _, a := range restActions {
			if hasAct(op.Ctrl, a) {
				want = append(want, fmt.Sprintf("%s %s name=%s_%s", tableMethods[a], resPath+tablePath[a], tag, strings.ToLower(a)))
			}
		}
	}
	resPath := strings.Join(resPaths, " and ")
	var got []string
	for _, ri := range res.W.R.Routes() {
		if under(ri.Path) == "" {
			continue
		}
		ms := append([]string{}, ri.Methods...)
		sort.Strings(ms)
		got = append(got, fmt.Sprintf("%s %s name=%s", strings.Join(ms, ","), ri.Path, ri.Name))
	}
	got = uniqSorted(got)
	sort.Strings(want)
	if strings.Join(got, " | ") != strings.Join(want, " | ") {
		class := "extra"
		if len(got) < len(want) {
			class = "missing"
		} else if len(got) == len(want) {
			class = "name"
		}
		fail(class, "registered routes under %s are\n  %s\nthe documented table is\n  %s", resPath, strings.Join(got, " | "), strings.Join(want, " | "))
		return
	}
	for name, rt := range res.W.R.NamedRoutes() {
		if strings.HasPrefix(name, tag+"_") {
			a := strings.TrimPrefix(name, tag+"_")
			ok := false
			for _, x := range restActions {
				for _, rp := range resPaths {
					if strings.ToLower(x) == a && hasAct(op.Ctrl, x) && rt.Path() == rp+tablePath[x] {
						ok = true
					}
				}
			}
			if !ok {
				fail("name", "named route %s -> %s is not in the documented table", name, rt.Path())
			}
		}
	}
	// 2. every probe reaches the documented action, with exactly its Uses() middleware
	for _, rec := range res.All() {
		rp := ""
		for _, x := range resPaths {
			if strings.HasPrefix(rec.Path, strings.ReplaceAll(x, "{shop}", "7")) {
				rp = x
			}
		}
		if rp == "" {
			continue
		}
		rel := strings.TrimPrefix(rec.Path, strings.ReplaceAll(rp, "{shop}", "7"))
		wantAct, wantID := "", ""
		if rel == "" || rel[0] == '/' {
			wantAct, wantID = c16Expect(op.Ctrl, rec.Method, rel)
		}
		gotAct, gotID := "", ""
		var usesRan []string
		wantInst := "a" + strings.ToLower(ctrlTag(op)) + ":"
		if op.AgainNew && len(resPaths) > 1 && rp == resPaths[1] {
			wantInst = "a" + strings.ToLower(ctrlTag(op)) + "b:"
		}
		for _, it := range rec.Trace {
			if it.K == "enter" && strings.HasPrefix(it.H, "a") && strings.Contains(it.H, ":") && gotAct == "" {
				gotAct = it.H[strings.Index(it.H, ":")+1:]
				if !strings.HasPrefix(it.H, wantInst) {
					fail("wrong-action", "%s %s was served by the controller instance %q, but the controller registered under %s is instance %q", rec.Method, rec.Path, it.H[:strings.Index(it.H, ":")+1], rp, wantInst)
					return
				}
			}
			if it.K == "enter" && strings.HasPrefix(it.H, "u") {
				usesRan = append(usesRan, it.H)
			}
			if it.K == "obs" && strings.HasPrefix(it.H, "a") && gotID == "" {
				if i := strings.Index(it.V, "id="); i >= 0 && i < strings.Index(it.V, " d=") {
					gotID = it.V[i+3 : strings.IndexAny(it.V[i:], ",}")+i]
				}
			}
		}
		if gotAct != wantAct {
			class := "wrong-action"
			if wantAct == "" {
				class = "extra"
			} else if gotAct == "" {
				class = "missing"
			}
			fail(class, "%s %s was served by action %q, the documented table says %q\n  trace: %s", rec.Method, rec.Path, gotAct, wantAct, compactTrace(rec.Trace))
			return
		}
		if wantAct != "" && gotID != wantID {
			fail("wrong-action", "%s %s reached %s with id=%q, expected id=%q", rec.Method, rec.Path, gotAct, gotID, wantID)
			return
		}
		wantUses := ""
		if wantAct != "" {
			wantUses = strings.Join(op.Uses[wantAct], ",")
		}
		if strings.Join(usesRan, ",") != wantUses {
			fail("uses-leak", "%s %s (action %q) ran the per-action middleware [%s], Uses() attaches [%s] to that action", rec.Method, rec.Path, wantAct, strings.Join(usesRan, ","), wantUses)
			return
		}
		if wantAct == "" && rec.Code != 404 && rec.Code != 405 {
			fail("extra", "%s %s is not in the documented table but was answered with status %d", rec.Method, rec.Path, rec.Code)
			return
		}
	}
	return
}

func checkC16(sc *Scenario) *CheckOut {
	out := &CheckOut{Faults: map[string]int64{}}
	viol, res, nt := c16Judge(sc)
	out.Res, out.Nontrivial = res, nt
	out.Requests = len(res.All())
	out.Viol = viol
	return out
}

func actionsOf(mask int) []string {
	var out []string
	for i, a := range restActions {
		if mask>>i&1 == 1 {
			out = append(out, a)
		}
	}
	return out
}

func uniqSorted(ss []string) []string {
	sort.Strings(ss)
	var out []string
	for i, s := range ss {
		if i == 0 || s != ss[i-1] {
			out = append(out, s)
		}
	}
	return out
}

func init() {
	rule := "a run is non-trivial when the controller implements at least one action; run index r uses action subset r mod 128 and Uses() iff (r/128) is odd, so 256 consecutive runs cover all controller types"
	register(&Profile{Prop: "C16", Name: "sequential", Quick: 7680, Thorough: 256 * 400, Gen: genC16(false), Check: checkC16, Rule: rule})
	register(&Profile{Prop: "C16", Name: "concurrent", Quick: 3840, Thorough: 256 * 200, Gen: genC16(true), Check: checkC16, Rule: rule})
}
