package main

import (
	"fmt"
	"strconv"
	"strings"
)

// C03 — concurrent requests are independent of each other and race-free.
//
// Workload: 2..6 simulated clients, each serving 1..3 requests, on a seeded
// router shape, under a seeded schedule, pool policy and set of yield sites.
// Oracle 1: each request's full record must equal the record of the same
// request served alone on a freshly built identical router (solo twin).
// Oracle 2 (race profile): the run is executed in a -race build where baton
// hand-offs are invisible to the detector (see baton.go).

func c03Scripts(g *Gen, id string, kind byte) []Action {
	rng := g.rng
	switch kind {
	case 'h':
		switch rng.Intn(6) {
		case 0:
			return []Action{{Op: "obs"}, {Op: "status", N: 201}, {Op: "header", S: "X-H", V: id}, {Op: "write", S: id + ";"}}
		case 1:
			return []Action{{Op: "obs"}, {Op: "write", S: id + "-1;"}, {Op: "yield"}, {Op: "write", S: id + "-2;"}}
		case 2:
			return []Action{{Op: "obs"}, {Op: "set", S: "k", V: id}, {Op: "text", N: 200, S: id}, {Op: "obs"}}
		}
		return nil
	case 'n':
		if rng.Chance(1, 2) {
			return []Action{{Op: "obs"}, {Op: "status", N: 404}, {Op: "write", S: id + ";"}, {Op: "next"}}
		}
		return nil
	}
	// middleware
	switch rng.Intn(10) {
	case 0:
		return []Action{{Op: "obs"}, {Op: "write", S: "<" + id}, {Op: "next"}, {Op: "write", S: id + ">"}, {Op: "obs"}}
	case 1:
		return []Action{{Op: "obs"}, {Op: "header", S: "X-" + id, V: "1"}} // returns without calling Next
	case 2:
		return []Action{{Op: "set", S: id, V: "v"}, {Op: "next"}, {Op: "obs"}}
	case 3:
		if rng.Chance(1, 3) {
			return []Action{{Op: "obs"}, {Op: "abortstatus", N: 403}, {Op: "obs"}}
		}
	case 4:
		if rng.Chance(1, 3) {
			return []Action{{Op: "obs"}, {Op: "next"}, {Op: "panicif"}, {Op: "obs"}} // panics only on routers with a panic hook
		}
	case 5:
		if rng.Chance(1, 2) {
			return []Action{{Op: "obs"}, {Op: "adderr", S: "E-" + id}, {Op: "next"}, {Op: "panicif"}}
		}
	case 6:
		if rng.Chance(1, 3) {
			return []Action{{Op: "obs"}, {Op: "introspect"}, {Op: "next"}, {Op: "obs"}}
		}
	case 7:
		if rng.Chance(1, 3) {
			return []Action{{Op: "obs"}, {Op: "cancelreq"}, {Op: "next"}, {Op: "obs"}}
		}
		if rng.Chance(1, 2) {
			return []Action{{Op: "obs"}, {Op: "buildurl", S: "route" + strconv.Itoa(rng.Intn(4))}, {Op: "next"}, {Op: "obs"}}
		}
		return []Action{{Op: "obs"}, {Op: "editquery"}, {Op: "next"}, {Op: "obs"}}
	}
	return nil
}

func genC03(rng *Rng, sc *Scenario) { genC03With(rng, sc, false) }

// genC03Race draws coarse schedules (at most four preemptions): the detector
// flags unsynchronised conflicting accesses whatever their distance in time, so
// fine interleaving buys little there, and every task switch costs two
// collections (see Sched.Run).
func genC03Race(rng *Rng, sc *Scenario) { genC03With(rng, sc, true) }

func genC03With(rng *Rng, sc *Scenario, coarse bool) {
	g := NewGen(rng, sc)
	g.GenShape(ShapeCfg{
		MaxRoutes: 6, MaxGlobals: 4, GroupChance: [2]int{1, 3},
		CacheChance: [2]int{1, 2}, Caps: []int{0, 1, 2, 3, 1000},
		FallbackOpts: true, Scripts: c03Scripts,
	})
	if rng.Chance(1, 4) {
		sc.Options.OnPanic = "p0" // some handlers panic; the hook contains it (default script: status 500)
	}
	if rng.Chance(1, 4) {
		sc.Options.OnError = "e0" // default script: obs
	}
	nTasks := rng.Range(2, 6)
	if rng.Chance(1, 2) {
		nTasks = rng.Range(2, 3)
	}
	var prev []Req
	totalReq := 0
	for t := 0; t < nTasks; t++ {
		var cl Client
		k := 1
		if rng.Chance(1, 3) {
			k = rng.Range(2, 3)
		}
		for i := 0; i < k; i++ {
			rq := g.GenRequest(prev)
			prev = append(prev, rq)
			if rng.Chance(1, 12) {
				rq.Kind = "match" // Router.Match called while requests are in flight (it shares the cache with them)
			}
			cl.Reqs = append(cl.Reqs, rq)
			totalReq++
		}
		sc.Clients = append(sc.Clients, cl)
	}
	sc.Pool = GenPool(rng)
	sc.Sites = GenSites(rng)
	sc.OrderSeed = rng.U64() | 1
	if coarse {
		sc.Schedule = GenCoarseSchedule(rng, nTasks, 30*totalReq)
	} else {
		sc.Schedule, _ = GenSchedule(rng, nTasks, 30*totalReq)
	}
}

type CheckOut struct {
	Viol       []Violation
	Res        *RunResult
	Nontrivial bool
	Requests   int
	Faults     map[string]int64
}

func checkC03(sc *Scenario) *CheckOut {
	out := &CheckOut{}
	res := RunConcurrent(sc)
	out.Res = res
	if res.W.regPanic != "" {
		return out // registration rejected the program: nothing to run (not this property's business)
	}
	if res.Abandoned {
		out.Faults = map[string]int64{"pre-run-abandoned": 1}
		return out
	}
	if res.Overrun {
		out.Viol = append(out.Viol, Violation{"C03", "no-progress", fmt.Sprintf("run exceeded %d scheduler steps", len(res.Steps)), ""})
		return out
	}
	if v := poolViolation("C03", res); v != nil {
		out.Viol = append(out.Viol, *v)
	}
	out.Viol = append(out.Viol, compareWithSoloTwins("C03", sc, res, BuildOpt{})...)
	out.Nontrivial = res.Preemptions >= 2
	out.Requests = len(res.All())
	return out
}

// compareWithSoloTwins is oracle 1 of C03 (also used by other properties'
// concurrent profiles): every request equals its solo twin.
func compareWithSoloTwins(prop string, sc *Scenario, res *RunResult, bo BuildOpt) []Violation {
	var viol []Violation
	tw := newTwinCache(sc, bo)
	for _, rec := range res.All() {
		rq := &sc.Clients[rec.Task].Reqs[rec.Idx]
		twin := tw.Get(rq)
		if rec.Canon() == twin.Canon() {
			continue
		}
		class := "wrong-response"
		tset := map[string]bool{}
		for _, t := range twin.Trace {
			tset[t.H] = true
		}
		for _, t := range rec.Trace {
			if t.K == "enter" && !tset[t.H] {
				class = "cross-talk"
			}
		}
		if class != "cross-talk" && paramsOf(rec) != paramsOf(twin) {
			class = "wrong-params"
		}
		viol = append(viol, Violation{prop, class,
			fmt.Sprintf("client %d request %d (%s %s) differs from the same request served alone:\n  concurrent: %s\n  alone:      %s",
				rec.Task, rec.Idx, rec.Method, rec.Path, rec.Canon(), twin.Canon()), ""})
		break
	}
	return viol
}

func paramsOf(r *ReqRec) string {
	var b strings.Builder
	for _, t := range r.Trace {
		if t.K == "obs" {
			if i := strings.Index(t.V, " d="); i > 0 {
				b.WriteString(t.V[:i])
				b.WriteByte(';')
			}
		}
	}
	return b.String()
}
