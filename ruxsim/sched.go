package main

import (
	"fmt"
	"runtime"
)

// Yield sites. The first block is inside rux (verif-tagged hooks), the second in the harness.
var ruxSites = []string{
	"serve.init", "serve.done", "dispatch.matched", "dispatch.chain", "dispatch.commit",
	"cache.lookup", "cache.store", "cache.lock.len", "cache.lock.set", "cache.lock.get", "cache.lock.delete", "cache.hit",
	"lock", "lock.wait",
}

// preSites: before every statement of the named file, in the instrumented copy of rux only (instr/)
var preSites = []string{
	"p.context", "p.context_binding", "p.context_render", "p.dispatch", "p.extends", "p.middleware", "p.parse_match",
	"p.response_wirter", "p.route", "p.route_cache", "p.router", "p.rux", "p.utils",
}

var harnessSites = []string{"h.enter", "h.act", "h.next", "h.leave", "w.call", "client.next", "cop"}

var siteNames = append(append(append([]string{}, ruxSites...), harnessSites...), preSites...)

var (
	siteHEnter     = siteIndex("h.enter")
	siteHAct       = siteIndex("h.act")
	siteHNext      = siteIndex("h.next")
	siteHLeave     = siteIndex("h.leave")
	siteWCall      = siteIndex("w.call")
	siteClientNext = siteIndex("client.next")
	siteCop        = siteIndex("cop")
	siteCacheHit   = siteIndex("cache.hit")
	siteCacheStore = siteIndex("cache.store")
	siteLockWait   = siteIndex("lock.wait")
)

func siteIndex(name string) int {
	for i, s := range siteNames {
		if s == name {
			return i
		}
	}
	return -1
}

// ruxYield is installed as rux.VerifHooks.Yield.
func ruxYield(site string) {
	i := siteIndex(site)
	if i < 0 {
		return // unknown site (a change under test added one): never scheduled on
	}
	if shIsQuiet() {
		return
	}
	taskCacheAdd(i)
	if shCur() < 0 {
		probeSite(i) // (sites reached inside the scheduler are counted by taskYield)
		return
	}
	if i == siteLockWait {
		taskYieldForced(i) // the lock is taken: somebody else has to run
		return
	}
	taskYield(i)
}

type StepRec struct {
	Task int
	Site int // site at which the task stopped (-2: finished)
}

// Sched runs tasks one at a time in the order given by the schedule.
type Sched struct {
	n        int
	schedule []int
	pos      int
	done     [maxTasks]bool
	last     int
	Steps    []StepRec
	MaxSteps int
	Between  func(step int) // run by the scheduler between two steps, no task running
	Overrun  bool
	Deadlock bool
	waiting  [maxTasks]bool
	doneCh   [maxTasks]chan struct{}
	spin     int // consecutive picks among tasks that all wait for the lock
	points   []PPoint
	preRng   *Rng
	preRate  int
}

// newSched builds the scheduler for a scenario: the schedule list, or (statement-level
// preemption) explicit points and/or a seeded random walk.
func newSched(sc *Scenario, maxSteps int) *Sched {
	s := &Sched{schedule: sc.Schedule, MaxSteps: maxSteps, points: sc.Points}
	if sc.Pre {
		// Statements are not a unit a progress bound can be derived from (one loop over the bytes of a
		// 64 KiB path is 130 000 steps): the bound only limits the time spent on a run, and a run that
		// exceeds it is abandoned, not judged (Abandoned). Liveness is judged in the cooperative
		// profiles; here only a lock that is never released counts (Deadlock).
		s.MaxSteps = 20*maxSteps + 1500000
		if sc.PreRate > 0 {
			s.preRate = sc.PreRate
			s.preRng = NewRng(sc.PreSeed, 0x9e3779b97f4a7c15, 0)
		}
	}
	return s
}

// Abandoned: a preemption run that hit the step limit without a deadlock.
func (s *Sched) Abandoned(sc *Scenario) bool { return sc.Pre && s.Overrun && !s.Deadlock }

// Switches returns the executed schedule as explicit points.
func (s *Sched) Switches() []PPoint {
	var out []PPoint
	prev := -1
	for i, st := range s.Steps {
		if st.Task != prev {
			out = append(out, PPoint{i, st.Task})
		}
		prev = st.Task
	}
	return out
}

// firstSwitches: the switches of the first multi-task run since the last reset (the history run of a check)
var firstSwitches []PPoint
var firstSwitchesSet bool

func (s *Sched) pick() int {
	c := s.pickRaw()
	if c >= 0 && s.waiting[c] {
		// c spins on a taken lock: let a task that can make progress run (round robin behind c)
		for k := 1; k < s.n; k++ {
			o := (c + k) % s.n
			if !s.done[o] && !s.waiting[o] {
				return o
			}
		}
		// Every unfinished task was last seen waiting for the lock. Its holder may have released it
		// and finished since, so each of them tries again in turn; when two full rounds bring nobody
		// past the lock it was leaked.
		s.spin++
		if s.spin > 2*s.n {
			s.Deadlock = true
			return c
		}
		from := s.last
		if from < 0 {
			from = c
		}
		for k := 1; k <= s.n; k++ {
			o := (from + k) % s.n
			if !s.done[o] {
				return o
			}
		}
	}
	return c
}

func (s *Sched) pickRaw() int {
	if len(s.points) > 0 {
		step := len(s.Steps)
		for _, pt := range s.points {
			if pt.At == step && pt.To >= 0 && pt.To < s.n && !s.done[pt.To] {
				return pt.To
			}
		}
	}
	if s.preRate > 0 && s.n > 1 && s.preRng.Intn(s.preRate) == 0 {
		if c := s.preRng.Intn(s.n); !s.done[c] {
			return c
		}
	}
	for s.pos < len(s.schedule) {
		c := s.schedule[s.pos]
		s.pos++
		if c >= 0 && c < s.n && !s.done[c] {
			return c
		}
		break // a non-runnable choice is consumed and replaced by the default
	}
	if s.last >= 0 && !s.done[s.last] {
		return s.last
	}
	for i := 0; i < s.n; i++ {
		if !s.done[i] {
			return i
		}
	}
	return -1
}

// Run executes the task bodies under the schedule. Each body runs on its own
// goroutine and holds the baton while it runs. Returns false on step overrun
// (tasks are then still parked: the process must exit).
func (s *Sched) Run(enabled []string, bodies []func()) bool {
	initPipes()
	s.n = len(bodies)
	if s.n > maxTasks {
		fatalf("too many tasks: %d", s.n)
	}
	s.last = -1
	for i := range siteNames {
		shEnable(i, siteEnabledBy(enabled, siteNames[i]))
	}
	shSetActive(true)
	for t := 0; t < s.n; t++ {
		s.doneCh[t] = make(chan struct{})
		go func(t int) {
			taskWaitStart(t)
			bodies[t]()
			close(s.doneCh[t]) // real synchronisation: the scheduler may now read what the task recorded
			taskDone(t)
		}(t)
	}
	remaining := s.n
	for remaining > 0 {
		t := s.pick()
		if t < 0 {
			break
		}
		if raceEnabled && t != s.last {
			// Empty every sync.Pool (fmt, regexp, ...) before a different task runs:
			// in race builds sync.Pool adds a happens-before edge from Put to the Get
			// that returns the same object, and which goroutine gets whose object is
			// decided by P affinity and a random drop. Two collections clear primary and
			// victim caches, so no object travels between tasks through a library pool
			// and the detector's verdict depends on the schedule only.
			runtime.GC()
			runtime.GC()
		}
		kind, task, site := schedResume(t)
		if task != t {
			fatalf("baton protocol: resumed %d, heard from %d", t, task)
		}
		s.last = t
		if kind == msgDone {
			<-s.doneCh[t]
			s.done[t] = true
			remaining--
			s.Steps = append(s.Steps, StepRec{t, -2})
		} else {
			if site == 255 {
				site = -1
			}
			s.Steps = append(s.Steps, StepRec{t, site})
			s.waiting[t] = site == siteLockWait
		}
		if kind == msgDone || site != siteLockWait {
			s.spin = 0
		}
		if s.Deadlock {
			s.Overrun = true
			shSetActive(false)
			s.noteSwitches()
			return false
		}
		if s.Between != nil {
			s.Between(len(s.Steps))
		}
		if s.MaxSteps > 0 && len(s.Steps) > s.MaxSteps && remaining > 0 {
			s.Overrun = true
			shSetActive(false)
			s.noteSwitches()
			return false
		}
	}
	shSetActive(false)
	s.noteSwitches()
	return true
}

func (s *Sched) noteSwitches() {
	if s.n > 1 && !firstSwitchesSet {
		firstSwitches, firstSwitchesSet = s.Switches(), true
	}
}

func siteEnabledBy(enabled []string, name string) bool {
	for _, e := range enabled {
		if e == name || e == "*" {
			return true
		}
		if n := len(e); n > 1 && e[n-1] == '*' && len(name) >= n-1 && name[:n-1] == e[:n-1] {
			return true
		}
	}
	return false
}

// ScheduleHash identifies the interleaving actually executed.
func (s *Sched) ScheduleHash() uint64 {
	h := uint64(1469598103934665603)
	for _, st := range s.Steps {
		h ^= uint64(st.Task+1)<<8 | uint64(st.Site+3)
		h *= 1099511628211
	}
	return h
}

func (s *Sched) String() string {
	out := ""
	for _, st := range s.Steps {
		name := "done"
		if st.Site >= 0 {
			name = siteNames[st.Site]
		}
		out += fmt.Sprintf("%d@%s ", st.Task, name)
	}
	return out
}
