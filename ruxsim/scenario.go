package main

import (
	"encoding/json"
	"os"
)

// A Scenario is one complete, self-describing simulated execution: router
// options, the registration program, what every harness handler does, the
// simulated clients, every internal choice (pool, map orders), the faults and
// the schedule. Executing it draws no randomness, so a scenario file is a replay
// file.
type Scenario struct {
	Property string `json:"property"`
	Profile  string `json:"profile"`
	Seed     uint64 `json:"seed"`
	Run      int    `json:"run"`
	Race     bool   `json:"race,omitempty"` // must be executed in a -race build

	Options  Options             `json:"options"`
	Program  []RegOp             `json:"program,omitempty"`
	Handlers map[string][]Action `json:"handlers,omitempty"` // handler id -> script (absent: default script)
	Clients  []Client            `json:"clients,omitempty"`

	Pool        PoolCfg      `json:"pool"`
	OrderSeed   uint64       `json:"orderSeed,omitempty"` // permutation seed for the map-order seams; 0 = sorted order
	CacheFaults []CacheFault `json:"cacheFaults,omitempty"`
	Sites       []string     `json:"sites,omitempty"` // enabled yield sites (exact names or "prefix.*")
	Schedule    []int        `json:"schedule,omitempty"`

	// statement-level preemption (needs the binary built against the instrumented copy of rux, see instr/)
	Pre     bool     `json:"pre,omitempty"`
	PreSeed uint64   `json:"preSeed,omitempty"` // random-walk scheduling: at every step, with probability 1/preRate, a task drawn from this stream runs next
	PreRate int      `json:"preRate,omitempty"`
	Points  []PPoint `json:"points,omitempty"` // explicit form: at step At, task To runs next (what the shrinker works on)

	SharedMW []string `json:"sharedMW,omitempty"` // a middleware list the application keeps in one slice (with spare capacity) and passes, unmodified, to several registrations
	Inner    bool     `json:"inner,omitempty"`    // build a second router that handlers can mount ("mount" action)

	// C14 component level
	CacheCap int `json:"cacheCap,omitempty"`

	Expect *Expect `json:"expect,omitempty"` // filled in replay files
}

// PPoint is one preemption point of an explicit schedule.
type PPoint struct {
	At int `json:"at"`
	To int `json:"to"`
}

type Expect struct {
	Class  string `json:"class"`
	Detail string `json:"detail,omitempty"`
	Sig    string `json:"sig,omitempty"`
}

type Options struct {
	Caching     bool   `json:"caching,omitempty"`
	Capacity    int    `json:"capacity,omitempty"`
	CacheOpt    string `json:"cacheOpt,omitempty"` // how caching is switched on: "" CachingWithNum(n) | enable-max: EnableCaching, MaxNumCaches(n) | max-enable: MaxNumCaches(n), EnableCaching
	StrictSlash bool   `json:"strictSlash,omitempty"`
	NotAllowed  bool   `json:"notAllowed,omitempty"`
	Fallback    bool   `json:"fallback,omitempty"`
	EncodedPath bool   `json:"encodedPath,omitempty"` // UseEncodedPath: match on URL.EscapedPath()
	Wrapped     bool   `json:"wrapped,omitempty"`     // serve through Router.WrapHTTPHandlers(pass-through pre-handlers)
	Intercept   string `json:"intercept,omitempty"`   // InterceptAll(path): every request is resolved as a request for this path
	OnPanic     string `json:"onPanic,omitempty"`     // handler id
	OnError     string `json:"onError,omitempty"`     // handler id
}

// RegOp is one step of the single-threaded registration program.
type RegOp struct {
	Op string `json:"op"` // use | group | route | notfound | notallowed | resource

	// route
	Via      string   `json:"via,omitempty"` // add | verb | named | any
	Path     string   `json:"path,omitempty"`
	Methods  []string `json:"methods,omitempty"`
	Name     string   `json:"name,omitempty"`
	H        string   `json:"h,omitempty"`        // main handler id
	MW       []string `json:"mw,omitempty"`       // use: middleware of this Use call; group: group middleware; route: middleware passed at registration; notfound/notallowed: the handlers
	LaterUse []string `json:"laterUse,omitempty"` // route: middleware attached with Route.Use after registration

	// group
	Body []RegOp `json:"body,omitempty"`

	// resource
	Ctrl     int                 `json:"ctrl,omitempty"`     // bit mask of implemented actions
	WithUses bool                `json:"withUses,omitempty"` // controller has Uses()
	Uses     map[string][]string `json:"uses,omitempty"`     // action -> middleware ids
	Kind     string              `json:"kind,omitempty"`     // "" | nonptr | nonstruct | ptrptr
	Again    string              `json:"again,omitempty"`    // register the same controller value a second time under this base path
	AgainNew bool                `json:"againNew,omitempty"` // ... with a new instance of the same controller type instead
}

// Action is one step of a handler script.
type Action struct {
	Op string `json:"op"`
	S  string `json:"s,omitempty"`
	V  string `json:"v,omitempty"`
	N  int    `json:"n,omitempty"`
}

type Client struct {
	Reqs []Req `json:"reqs,omitempty"`
	Ops  []COp `json:"ops,omitempty"`
}

type Req struct {
	Kind    string              `json:"kind,omitempty"` // "" serve the request | "match": call Router.Match only
	Method  string              `json:"m"`
	Path    string              `json:"p"`
	WFaults []WFault            `json:"wf,omitempty"`
	Plain   bool                `json:"plain,omitempty"` // the connection's writer offers only Header/Write/WriteHeader (no Flusher, Hijacker, ReaderFrom)
	Gone    bool                `json:"gone,omitempty"`
	Expired bool                `json:"expired,omitempty"` // the request's context carries a deadline that has long passed
	HTTP10  bool                `json:"http10,omitempty"`  // an HTTP/1.0 request
	Served  bool                `json:"served,omitempty"`  // the request context carries http.ServerContextKey / LocalAddrContextKey, as under a real server // the client has gone: the request's context is already cancelled when it arrives
	Over    map[string][]Action `json:"over,omitempty"`    // per-request script overrides
}

// WFault makes the k-th (0-based) underlying Write of the request accept only
// N bytes (N<0: all) and return Err ("" = io.ErrShortWrite when N is short, none otherwise).
type WFault struct {
	At  int    `json:"at"`
	N   int    `json:"n"`
	Err string `json:"err,omitempty"`
}

// COp is one operation on a bare route cache (C14 component level).
type COp struct {
	Op  string `json:"op"` // set get has delete len
	Key string `json:"k,omitempty"`
	Val int    `json:"v,omitempty"` // identifies the stored route (unique per set)
}

type PoolCfg struct {
	Policy string `json:"policy"`          // real | fresh | lifo | fifo | random | dirty
	Seed   uint64 `json:"seed,omitempty"`  // random policy
	DropN  int    `json:"dropN,omitempty"` // drop every N-th Put (0: never)
}

// CacheFault removes entries of the router's cache between two scheduler steps.
type CacheFault struct {
	AtStep int    `json:"at"`
	Op     string `json:"op"` // delete | flush
	Key    string `json:"key,omitempty"`
}

func (s *Scenario) Clone() *Scenario {
	b, err := json.Marshal(s)
	if err != nil {
		panic(err)
	}
	var c Scenario
	if err := json.Unmarshal(b, &c); err != nil {
		panic(err)
	}
	return &c
}

func (s *Scenario) JSON() []byte {
	b, err := json.MarshalIndent(s, "", " ")
	if err != nil {
		panic(err)
	}
	return b
}

func LoadScenario(path string) (*Scenario, error) {
	b, err := os.ReadFile(path)
	if err != nil {
		return nil, err
	}
	var s Scenario
	if err := json.Unmarshal(b, &s); err != nil {
		return nil, err
	}
	return &s, nil
}

// Violation is what an oracle reports.
type Violation struct {
	Property string `json:"property"`
	Class    string `json:"class"`
	Detail   string `json:"detail"`
	Sig      string `json:"sig,omitempty"` // stable signature used to match known findings
}
