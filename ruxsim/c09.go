package main

import (
	"fmt"
	"strings"
)

// C09 — a panicking handler is contained and leaves the router healthy.
//
// Crash points: every script position of every handler that runs for a request
// (global / group / route middleware before or after Next, main handler, custom
// NotFound / NotAllowed handlers, the OnError hook). Histories of several
// requests, sequential or concurrent, with the crashed request's context reused
// immediately by the pool.

var panicKinds = []string{"str", "str", "err", "rt", "aborthandler", "brokenpipe", "connreset"}

func genC09(concurrent bool) func(rng *Rng, sc *Scenario) {
	return func(rng *Rng, sc *Scenario) {
		g := NewGen(rng, sc)
		g.GenShape(ShapeCfg{
			MaxRoutes: 5, MaxGlobals: 3, GroupChance: [2]int{1, 3},
			CacheChance: [2]int{1, 3}, Caps: []int{1, 2, 1000},
			FallbackOpts: true,
			Scripts: func(g *Gen, id string, kind byte) []Action {
				switch kind {
				case 'h', 'n':
					if g.rng.Chance(1, 4) {
						return []Action{{Op: "obs"}, {Op: "adderr", S: "E-" + id}, {Op: "write", S: id + ";"}}
					}
					if g.rng.Chance(1, 4) {
						return []Action{{Op: "obs"}, {Op: "wstr", S: id + "-1;"}, {Op: "wstr", S: id + "-2;"}} // panics if the writer fails
					}
				default:
					switch g.rng.Intn(8) {
					case 0:
						return []Action{{Op: "write", S: "<" + id}, {Op: "next"}, {Op: "write", S: id + ">"}}
					case 1:
						return []Action{{Op: "status", N: 202}, {Op: "next"}, {Op: "obs"}}
					case 2:
						return []Action{{Op: "obs"}, {Op: "wrapnext"}, {Op: "obs"}}
					}
				}
				return nil
			},
		})
		if rng.Chance(7, 10) {
			sc.Options.OnPanic = "p0"
			switch rng.Intn(6) {
			case 0:
				sc.Handlers["p0"] = []Action{}
			case 1:
				sc.Handlers["p0"] = []Action{{Op: "obsrec"}}
			case 2:
				sc.Handlers["p0"] = []Action{{Op: "obsrec"}, {Op: "status", N: 503}, {Op: "write", S: "recovered"}}
			case 3:
				sc.Handlers["p0"] = []Action{{Op: "status", N: 500}, {Op: "write", S: "E"}, {Op: "obsrec"}, {Op: "obs"}}
			case 4:
				sc.Handlers["p0"] = []Action{{Op: "obsrec"}, {Op: "httperr", N: 500, S: "internal"}}
			} // default script: obsrec + status 500
		}
		if rng.Chance(1, 3) {
			sc.Options.OnError = "e0"
			if rng.Chance(1, 2) {
				sc.Handlers["e0"] = []Action{{Op: "obs"}, {Op: "write", S: "err;"}}
			}
		}
		nClients := 1
		if concurrent {
			nClients = rng.Range(2, 4)
		}
		var prev []Req
		total := 0
		for t := 0; t < nClients; t++ {
			k := rng.Range(3, 12)
			if concurrent {
				k = rng.Range(1, 4)
			}
			var cl Client
			for i := 0; i < k; i++ {
				rq := g.GenRequest(prev)
				rq.Over = nil
				prev = append(prev, rq)
				cl.Reqs = append(cl.Reqs, rq)
				total++
			}
			sc.Clients = append(sc.Clients, cl)
		}
		sc.OrderSeed = rng.U64() | 1
		// writer faults: a failing Write inside WriteString is a crash at that instant
		for t := range sc.Clients {
			for j := range sc.Clients[t].Reqs {
				if rng.Chance(1, 5) {
					f := WFault{At: rng.Intn(3), N: rng.Intn(3)}
					if rng.Chance(1, 2) {
						f.Err = "reset"
					}
					sc.Clients[t].Reqs[j].WFaults = []WFault{f}
				}
			}
		}
		// crash points: dry-run a request alone to learn which handlers run for it, then plant a panic in one of them
		nPanics := rng.Range(1, 5)
		for i := 0; i < nPanics; i++ {
			t := rng.Intn(nClients)
			j := rng.Intn(len(sc.Clients[t].Reqs))
			rq := &sc.Clients[t].Reqs[j]
			if len(rq.Over) > 0 {
				continue
			}
			plantPanic(rng, sc, rq)
		}
		sc.Pool = PoolCfg{Policy: rng.Pick([]string{"lifo", "lifo", "dirty", "random", "fifo"}), Seed: rng.U64()}
		sc.Sites = GenSites(rng)
		if concurrent {
			sc.Schedule, _ = GenSchedule(rng, nClients, 30*total)
		}
	}
}

// plantPanic dry-runs the request alone to learn which handlers run for it and
// inserts a panic at a random position of one of them (as a per-request override).
func plantPanic(rng *Rng, sc *Scenario, rq *Req) bool {
	dry := SoloTwin(sc, rq, BuildOpt{})
	var ids []string
	seen := map[string]bool{}
	for _, it := range dry.Trace {
		if it.K == "enter" && !seen[it.H] && it.H != "p0" {
			seen[it.H] = true
			ids = append(ids, it.H)
		}
	}
	if len(ids) == 0 {
		return false
	}
	id := ids[rng.Intn(len(ids))]
	base, ok := sc.Handlers[id]
	if !ok {
		base = defaultScript(id)
	}
	pos := rng.Intn(len(base) + 1)
	s := append([]Action{}, base[:pos]...)
	s = append(s, Action{Op: "panic", S: rng.Pick(panicKinds)})
	s = append(s, base[pos:]...)
	rq.Over = map[string][]Action{id: s}
	return true
}

func checkC09(sc *Scenario) *CheckOut {
	out := &CheckOut{Faults: map[string]int64{}}
	res := RunConcurrent(sc)
	out.Res = res
	if res.W.regPanic != "" {
		return out
	}
	if res.Overrun {
		out.Viol = append(out.Viol, Violation{"C09", "no-progress", "run exceeded its step bound", ""})
		return out
	}
	if v := poolViolation("C09", res); v != nil {
		out.Viol = append(out.Viol, *v)
		return out
	}
	hook := sc.Options.OnPanic
	all := res.All()
	out.Requests = len(all)
	firstPanic := int64(0)
	for _, rec := range all {
		if len(rec.PanicAt) > 0 && (firstPanic == 0 || rec.PanicSeq < firstPanic) {
			firstPanic = rec.PanicSeq
		}
	}
	fail := func(rec *ReqRec, class, format string, a ...any) {
		out.Viol = append(out.Viol, Violation{"C09", class, fmt.Sprintf("client %d request %d (%s %s): ", rec.Task, rec.Idx, rec.Method, rec.Path) +
			fmt.Sprintf(format, a...) + "\n  trace: " + traceString(rec.Trace) + "\n  underlying calls: " + callsString(rec.Calls) + "\n  escaped: " + rec.Escaped, ""})
	}
	for _, rec := range all {
		if len(out.Viol) > 0 {
			break
		}
		rq := &sc.Clients[rec.Task].Reqs[rec.Idx]
		if len(rec.PanicAt) == 0 {
			continue
		}
		out.Nontrivial = true
		out.Faults["handler-panic"]++
		for _, o := range all {
			if o != rec && o.StartSeq < rec.PanicSeq && rec.PanicSeq < o.EndSeq {
				out.Faults["handler-panic-while-another-request-in-flight"]++
				break
			}
		}
		p := rec.PanicAt[0]
		pit := rec.Trace[p]
		want := panicValue(pit.V, pit.H)
		if pit.V == "werr" {
			want = rec.PanicVal // the writer's injected error, thrown by WriteString
			out.Faults["writer-fault-turned-into-panic"]++
		}
		if hook == "" {
			if rec.Returned || rec.Escaped == "" {
				fail(rec, "swallowed", "no panic hook is installed but ServeHTTP returned normally after handler %s panicked", pit.H)
			} else if rec.Escaped != panicString(want) {
				fail(rec, "recover-value", "the panic that came out of ServeHTTP is %q, the handler panicked with %q", rec.Escaped, panicString(want))
			}
			continue
		}
		if !rec.Returned {
			fail(rec, "escaped", "a panic hook is installed but a panic escaped ServeHTTP")
			continue
		}
		hookEnters := 0
		for i := p + 1; i < len(rec.Trace); i++ {
			it := rec.Trace[i]
			switch {
			case it.K == "enter" && it.H == hook:
				hookEnters++
			case it.K == "rec":
				if it.V != fmt.Sprintf("true:%T:%v", want, want) {
					fail(rec, "recover-value", "the hook found %q under CTXRecoverResult, the handler panicked with %q", it.V, fmt.Sprintf("%T:%v", want, want))
				}
			case it.H == hook || it.K == "unwind":
			case it.K == "enter" && it.H != sc.Options.OnError:
				fail(rec, "ran-after-panic", "handler %s started after handler %s panicked", it.H, pit.H)
			case it.K == "leave" || it.K == "obs" || it.K == "do":
				if it.H != sc.Options.OnError {
					fail(rec, "ran-after-panic", "handler %s kept running (%s) after handler %s panicked", it.H, it.K, pit.H)
				}
			}
			if len(out.Viol) > 0 {
				break
			}
		}
		if len(out.Viol) > 0 {
			break
		}
		if hookEnters != 1 {
			fail(rec, "hook-count", "the panic hook ran %d times", hookEnters)
			continue
		}
		if v := modelCommit("C09", rec, rq, true, res.W.BuiltinFallback(rec.Method, rec.Path)); v != nil {
			// C09 only promises the commit and its status/body; keep the classes of the model
			switch v.Class {
			case "no-commit", "wrong-status", "double-commit", "implicit-commit", "body":
				out.Viol = append(out.Viol, *v)
			}
		}
	}
	if len(out.Viol) > 0 || firstPanic == 0 {
		return out
	}
	// the router stays healthy: every request that was in flight when, or started after, a panic happened
	// behaves as if the panic had never happened (= like the same request alone on a fresh router)
	tw := newTwinCache(sc, BuildOpt{})
	for _, rec := range all {
		if len(rec.PanicAt) > 0 || rec.EndSeq < firstPanic {
			continue
		}
		rq := &sc.Clients[rec.Task].Reqs[rec.Idx]
		twin := tw.Get(rq)
		if rec.Canon() != twin.Canon() {
			out.Viol = append(out.Viol, Violation{"C09", "poisoned-router",
				fmt.Sprintf("client %d request %d (%s %s), served after a handler panic in another request, differs from the same request on a fresh router:\n  after panic: %s\n  fresh:       %s",
					rec.Task, rec.Idx, rec.Method, rec.Path, rec.Canon(), twin.Canon()), ""})
			break
		}
	}
	return out
}

func init() {
	rule := "a run is non-trivial when at least one planted handler panic actually fired"
	register(&Profile{Prop: "C09", Name: "sequential", Quick: 24000, Thorough: 500000, Gen: genC09(false), Check: checkC09, Rule: rule, Faulty: true})
	register(&Profile{Prop: "C09", Name: "concurrent-race", Race: true, Quick: 1500, Thorough: 40000, Gen: coarseRace(genC09(true)), Check: checkC09,
		Rule: "as concurrent, executed under the race detector with coarse schedules", Faulty: true})
	register(&Profile{Prop: "C09", Name: "concurrent", Quick: 18000, Thorough: 400000, Gen: genC09(true), Check: checkC09, Rule: rule, Faulty: true})
}

var _ = strings.Join
