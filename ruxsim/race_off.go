//go:build !race

package main

const raceEnabled = false

func raceErrors() int { return 0 }

func raceViolation(prop string) Violation {
	return Violation{Property: prop, Class: "data-race", Detail: "race build required"}
}
