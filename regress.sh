#!/bin/bash
# Development tooling: run every kept seeded change against the check of its own property (regression of the corpus).
cd "$(dirname "$0")"
for d in seeded/C*-*/; do
  id=$(basename "$d"); t=${id%%-*}
  [ -f "$d/patch.diff" ] || continue
  echo "== $id"
  ./seedtest.sh "$d/patch.diff" $t
done
