#!/usr/bin/env python3
"""Regenerates MANIFEST.json from the tables below (kept in one place so it stays valid)."""
import json, subprocess

def repo_commits():
    out = subprocess.run(["git", "-C", "/repo", "log", "--format=%H %s"], capture_output=True, text=True).stdout
    return [l.split()[0] for l in out.splitlines() if " verif hooks:" in " " + l]

CLAIMED = {
 "C03": dict(
   technique="deterministic simulation: seeded scheduler over concurrent requests + solo-twin differential oracle + race detector made schedule-deterministic (baton through raw pipe syscalls)",
   text="Seeded exploration of interleavings of 2-6 in-flight requests on seeded router shapes; every request must equal the same request served alone on a fresh identical router, and the same runs are repeated in a -race build where hand-offs between simulated requests are invisible to the detector, so only rux's own synchronisation orders them. Sampling, not enumeration.",
   note="Interleavings at yield sites only (harness handler boundaries, writer calls, verif-tagged sites in rux). Race detector blind spots (library-internal pools adding edges, bounded TSan history) can hide a race, never invent one. Trusted: the harness, Go's race detector. A further profile per property (*-pre) repeats the concurrent worlds in a binary built against a scratch copy of the working tree in which instr/ has woven a scheduler yield before every statement of package rux, under a seeded random-walk scheduler: tasks are preempted between any two statements of rux, not only at hooks (DESIGN.md 3.7a).",
   ref="DESIGN.md §4.1"),
 "C08": dict(
   technique="deterministic simulation with writer fault injection: seeded handler operation programs against a fault-injecting simulated ResponseWriter; trace-driven state-machine model of the lazy header commit; concurrent worlds also under statement-level preemption and under the race detector",
   text="Seeded programs of up to 12 status/header/write/flush/helper operations spread over the handlers of a chain, against an underlying writer with a seeded plan of short writes and errors, alone and inside concurrent worlds; the underlying call log must equal what a three-state commit model produces from the operations recorded in the request's own trace. Sampling, not enumeration.",
   note="The simulated writer commits like net/http's (a Write/Flush before WriteHeader is logged as an implicit 200). StatusCode() after the commit is deliberately not asserted (a suite test pins the opposite). Requests answered by rux's built-in 404/405 handlers are judged structurally only. Two further profiles repeat the concurrent worlds (a) in the binary built against a scratch copy of the working tree in which instr/ has woven a scheduler yield before every statement of package rux, under a seeded random-walk scheduler (a request can be suspended between the pool Put and the return of ServeHTTP, DESIGN.md 3.7a), and (b) in the -race build with coarse schedules.",
   ref="DESIGN.md §4.5"),
 "C09": dict(
   technique="deterministic simulation with crash injection: seeded handler panics at every script position, in sequential histories and concurrent worlds with immediate context reuse; call-log model + fresh-router twin for the requests that follow",
   text="Seeded crash points (before/after Next in any middleware, main handler, custom fallback handlers, OnError hook; string/error/runtime/ErrAbortHandler values), hook present or absent and five hook behaviours; oracle: containment, hook ran once with the value, nothing later ran, single commit with the hook's status/body (commit model continued through the hook), unchanged propagation without hook; every request in flight at or started after a panic must equal the same request on a fresh router. Sampling, not enumeration.",
   note="handlers.PanicsHandler (in-chain recovery) is not part of the statement and not exercised. What OnError does after a recovered panic is not asserted.",
   ref="DESIGN.md §4.6"),
 "C07": dict(
   technique="deterministic simulation with cache-loss fault injection: seeded request histories on a tiny-capacity caching router vs a non-caching twin, sequentially and under the seeded scheduler",
   text="Seeded histories (5-60 steps over a pool of 3-8 requests, so hits, misses and evictions occur; HEAD fallbacks, 405 probes, Router.Match steps) on caching routers with capacity 0-4 or 1000, compared step by step with a twin built from the same program without caching; concurrent profiles compare each request with the non-caching twin's answer for that request alone; fault profiles delete entries or flush the cache between any two scheduler steps (also between a lookup and the store that follows). Sampling, not enumeration.",
   note="Route pointer identity is deliberately not compared (a hit returns a copy). Handlers treat Params as read-only, as the statement assumes. The twin shares all of rux except the cache, so a routing defect common to both (C01) cannot raise an alarm here. A further profile per property (*-pre) repeats the concurrent worlds in a binary built against a scratch copy of the working tree in which instr/ has woven a scheduler yield before every statement of package rux, under a seeded random-walk scheduler: tasks are preempted between any two statements of rux, not only at hooks (DESIGN.md 3.7a).",
   ref="DESIGN.md §4.4"),
 "C10": dict(
   technique="deterministic simulation: seeded request histories with context-dirtying handler scripts, simulated pool with adversarial reuse policy (dirtiest-first / LIFO / FIFO / random), fresh-router twin per request",
   text="Seeded histories of 4-30 requests (static, dynamic, 404, 405, aborted, erroring, panicking, writer/request-swapping, re-dispatching through HandleContext) where the simulated pool hands the dirtiest free context to the next request; every handler's observation of the context and the whole outcome must equal those of the same request as first request on a fresh identical router; the pool checks that no context is released twice. Sampling, not enumeration.",
   note="Reuse is real and measured by object identity. Observations use the public Context API only (Params, Data(), Errors, IsAborted, StatusCode, Length, Req, RawWriter, Resp type). A further profile per property (*-pre) repeats the concurrent worlds in a binary built against a scratch copy of the working tree in which instr/ has woven a scheduler yield before every statement of package rux, under a seeded random-walk scheduler: tasks are preempted between any two statements of rux, not only at hooks (DESIGN.md 3.7a).",
   ref="DESIGN.md §4.7"),
 "C14": dict(
   technique="deterministic simulation: seeded cache-operation histories vs a sequential LRU model (operation by operation incl. recency order through a verif accessor); concurrent histories under the seeded scheduler checked for linearizability with porcupine and under the race detector; router-level request histories",
   text="Component level: seeded Set/Get/Has/Delete/Len histories (10-80 operations, capacity 0-4 or 1000, six keys, unique values) compared after every operation - return value and recency order - with a list model; 2-4 concurrent clients with yields before every lock acquisition, invocation/return stamped with the simulator's event sequence number, checked with porcupine against the same model plus a final recency snapshot, and executed in the -race build. Router level: after a request resolved to a dynamic route the most recent cache key must be exactly method+path, and an immediate repeat must be a cache hit with no store. Sampling, not enumeration.",
   note="Whether Has counts as a read is not stated: both readings are accepted, but one of them must explain the whole history. HEAD requests may be cached under their GET fallback. Router-level paths are generated already normalised (normalisation is C11). Porcupine timeouts are counted as inconclusive in the evidence, never reported. A further profile per property (*-pre) repeats the concurrent worlds in a binary built against a scratch copy of the working tree in which instr/ has woven a scheduler yield before every statement of package rux, under a seeded random-walk scheduler: tasks are preempted between any two statements of rux, not only at hooks (DESIGN.md 3.7a).",
   ref="DESIGN.md §4.8"),
 "C04": dict(
   technique="deterministic simulation (thin claim): seeded registration programs and handler behaviours run under the seeded scheduler, pool and cache seams; absolute oracle = registration model + one-cursor interpreter of the handler scripts",
   text="Seeded registration programs (global Use calls before and after routes, nested groups with Use inside, route middleware passed at registration and attached later, custom NotFound/NotAllowed, chains up to the limit) and per-handler behaviours (Next once, twice, never), single requests and 2-4 concurrent clients; the enter/leave sequence of every request must equal what the documented order prescribes. Thin: the statement names no schedule or fault; the simulator owns the interleaving, the pool and the cache on which the per-request chain assembly demonstrably depends (see the repaired cross-talk defect); the single-client profile is model-based testing of programs. Sampling, not enumeration.",
   note="Which route a request reaches and the registered path are taken from the router itself (Match on a non-caching twin), so routing or group-prefix defects (C01, C12: not claimed) cannot raise an alarm here.",
   ref="DESIGN.md §4.2"),
 "C05": dict(
   technique="deterministic simulation with cancellation injection (thin claim): a seeded handler aborts at a seeded point (before/after/without Next) in chains up to and beyond the limit, alone and under the seeded scheduler; trace invariants + solo twins for non-aborting requests",
   text="Seeded cancellation points: one handler of a request (global, group, route middleware, main or fallback handler, any position, chains of 1-62 and a dedicated over-the-limit profile) calls Abort/AbortThen/AbortWithStatus before, after or without Next while the other handlers call Next once, twice or never; oracle: nothing starts after the abort, suspended handlers resume innermost first, IsAborted false before / true after / false throughout where nobody aborts, AbortWithStatus determines the committed status unless already committed, and requests that do not abort equal their solo twin. Thin in the same sense as C04. Sampling, not enumeration.",
   note="Chains longer than 63 handlers (possible because global middleware is not counted by the registration-time limit) are a recorded known finding, matched by the signature chain>63 only.",
   ref="DESIGN.md §4.3"),
 "C16": dict(
   technique="deterministic simulation (thin claim): all 256 generated controller types x base paths (also with a path variable, mixed case, nested groups, second registrations) x method/path probes, sequentially and as concurrent clients under the seeded scheduler, pool and cache seams, against the documented REST table",
   text="Run index r uses action subset r mod 128 and Uses() iff r/128 is odd, so every 256 consecutive runs cover all controller types, each with a seeded base path (/, /api/, mixed case, /shops/{shop}/, nested group), group and resource middleware shapes, options, an optional second registration (same value or a new instance) and 7 methods x 9 relative paths of probes; oracle: the documented table (registered routes and names, which action and which controller instance serves which probe with which id, which Uses() middleware ran, everything else 404/405, non-pointer / non-struct / pointer-to-pointer controllers rejected). Thin: the map-iteration order inside Resource used to be behind a seam and drawn from the seed; that is how the check found that create could be served by show (repaired: Resource now registers in a fixed order and the seam is gone). What the simulator still owns here is the interleaving of the probes, the route cache and the context pool; the sequential profile is model-based testing of the table.",
   note="HEAD and OPTIONS probes are left out (their fallback behaviour is C06). Base paths not ending in / are left out (Resource(\"/api\", c) yields /apiproduct; the statement does not say whether that is intended).",
   ref="DESIGN.md §4.9"),
}

NA = {
 "C01": "pure function of (ordered route table, method, path): no schedule, fault or persisting state once caching is off; the caching case is C07. Deciding it takes a reference matcher and input generation, not a simulator.",
 "C02": "pure function of (pattern, path); its only history/schedule-dependent slices (params on a cache hit, shared cached map under concurrency) are decided by C07 and C03, which compare parameters.",
 "C06": "pure decision table over (table, options, request); its cache interaction is inside C07's workload and the allowed list is only promised as a set.",
 "C11": "pure string function and its agreement between two call sites.",
 "C12": "property of the single-threaded registration program; nothing runs concurrently with it and nothing can fail in it.",
 "C13": "totality over two string spaces; input-triggered panics are not injected faults.",
 "C15": "pure function (URL building round trip).",
 "C17": "quantifies over request path strings; file access itself is http.FileServer/http.Dir and no disk fault is part of the statement.",
 "C18": "the decision table is pure; the only stream is consumed by encoding/json, encoding/xml and Request.ParseForm, so short reads would exercise the standard library, not rux.",
 "C19": "pure encoders over values and headers.",
 "C20": "pure functions of headers, method and wrapper list.",
}
PENDING = {}

def main():
    checks = []
    for pid in sorted(CLAIMED):
        c = CLAIMED[pid]
        checks.append({
            "property_id": pid,
            "quick_cmd": f"./check {pid} quick",
            "thorough_cmd": f"./check {pid} thorough",
            "evidence_file": f"/verif/evidence/{pid}.json",
            "replay_cmd_template": f"./check {pid} --replay {{path}}",
            "engine": "ruxsim",
            "level_claimed": {"category": "exploration", "text": c["text"], "design_ref": c["ref"]},
            "level_note": c["note"],
            "technique": c["technique"],
        })
    na = [{"property_id": k, "reason": v} for k, v in sorted({**NA, **PENDING}.items()) if k not in CLAIMED]
    m = {
        "version": 1,
        "setup_cmd": "./check --build && ./check --selftest -n 8 -procs 9",
        "hooks": {
            "guard": "verif (Go build tag)",
            "enable": "go build -tags verif (the harness module ruxsim replaces github.com/gookit/rux with /repo)",
            "baseline_off_cmd": "cd /repo && GOFLAGS=-mod=mod GOPROXY=off GOSUMDB=off go test -vet=off -count=1 -timeout 25m ./...",
            "source_commits": repo_commits(),
            "add_only": False,
            "add_only_note": "All hook changes add lines except three declarations: `ctxPool sync.Pool` in router.go became `ctxPool verifCtxPool`, and in route_cache.go `lock *sync.RWMutex` / `new(sync.RWMutex)` became `*verifRWMutex` / `new(verifRWMutex)` (the then unused imports of sync were dropped). Both names are type aliases of the sync types when the guard is off, so the shipped build is the same code; with the guard on they are wrappers through which every pool operation and every lock acquisition, at any call site, reaches the simulator. Call-site hooks (the first version) missed operations added or moved by a change under test.",
        },
        "engines": [{"name": "ruxsim", "path": "/verif/ruxsim", "serves_properties": sorted(CLAIMED),
                     "kind_free_text": "deterministic simulator for rux: seeded scheduler passing a baton between request goroutines, simulated ResponseWriter/pool/map-order seams, fault injection, structured shrinking, scenario-file replay"},
                    {"name": "instr", "path": "/verif/instr", "serves_properties": ["C03", "C07", "C10", "C14"],
                     "kind_free_text": "go/ast tool run by ./check: copies /repo's working tree to a scratch directory with a scheduler yield woven before every statement of package rux; the ruxsim-pre binary (statement-level preemption profiles) is built against that copy, which is deleted afterwards"}],
        "checks": checks,
        "not_applicable": na,
        "notes": "Exit 2 from a check means infrastructure trouble (build failure, watchdog, nondeterminism), never a verdict. known_findings.json lists recorded and fixed defects. ./check builds three binaries from /repo's working tree on every invocation (plain, -race, and for C03/C07/C08/C10/C14 the statement-instrumented one); nothing under /tmp outlives a command.",
    }
    json.dump(m, open("/verif/MANIFEST.json", "w"), indent=1)
    print("checks:", [c["property_id"] for c in checks], "not_applicable:", [n["property_id"] for n in na])

if __name__ == "__main__":
    main()
